(** C08 — Distinct cacheable commands never share a cache entry.

    FULL STATEMENT (does not hold for the code as it is):

      forall scr1 s1 scr2 s2 id,
        lru_id scr1 s1 = Ok id -> lru_id scr2 s2 = Ok id -> (scr1, s1) = (scr2, s2)
      (and the same for adapter_id)

    where a command is its token list and the script-read-only flag, [lru_id] = cmds.CacheKey (the
    (key, cmd) pair that addresses an lru entry) and [adapter_id] = key ++ cmd (the SimpleCache key of
    NewSimpleCacheAdapter).  CacheKey concatenates every token except the key without separators, so the
    statement is refuted ([C08_refuted]); the identity is characterised exactly ([C08_characterised]) and is
    injective wherever the token lengths are fixed ([C08_partial_*]).  The format is pinned by
    internal/cmds/cmds_test.go ("HMGETBC", "EVALSHA_ROsha11XXX"): a separator or length prefix fails three
    unedited tests, so the defect is recorded as a known finding (known_findings.d/lru.json) rather than
    repaired.  The observer labels a colliding pair with the class of that finding only when the pair
    satisfies the right-hand side of [C08_characterised]; any other collision is a violation. *)
From Coq Require Import List NArith Bool.
Require Import RV.Model.Base RV.Model.CacheKey RV.Proofs.LruBase RV.Proofs.CacheKeyProofs.
Import ListNotations.
Open Scope N_scope.

Definition s_getrange : bytes := [71; 69; 84; 82; 65; 78; 71; 69].     (* "GETRANGE" *)
Definition w1 : tokens := [s_getrange; [107]; [49]; [50; 51]].   (* GETRANGE k 1 23 *)
Definition w2 : tokens := [s_getrange; [107]; [49; 50]; [51]].   (* GETRANGE k 12 3 *)
Definition w3 : tokens := [[84; 84; 76]; [107; 80]].                     (* TTL kP *)
Definition w4 : tokens := [[80; 84; 84; 76]; [107]].                     (* PTTL k *)

Theorem C08_refuted :
  (exists s1 s2 id, s1 <> s2 /\ lru_id false s1 = Ok id /\ lru_id false s2 = Ok id) /\
  (exists s1 s2 id, s1 <> s2 /\ lru_id false s1 <> lru_id false s2 /\ adapter_id false s1 = Ok id /\ adapter_id false s2 = Ok id).
Proof.
  split.
  - exists w1, w2. eexists. split; [discriminate|]. split; vm_compute; reflexivity.
  - exists w3, w4. eexists. split; [discriminate|]. split; [vm_compute; discriminate|]. split; vm_compute; reflexivity.
Qed.
Print Assumptions C08_refuted.

(** Exactly which pairs share an identity: same key token and same concatenation of the other tokens
    (built-in store); same key ++ concatenation (adapter).  The key token is token 1, or token 3 for a
    read-only script command with more than two tokens. *)
Theorem C08_characterised : forall scr1 s1 scr2 s2 k1 c1 k2 c2,
  cache_key scr1 s1 = Ok (k1, c1) -> cache_key scr2 s2 = Ok (k2, c2) ->
  ((k1, c1) = (k2, c2) <-> key_of scr1 s1 = key_of scr2 s2 /\ concat (rest_of scr1 s1) = concat (rest_of scr2 s2)) /\
  (k1 ++ c1 = k2 ++ c2 <-> key_of scr1 s1 ++ concat (rest_of scr1 s1) = key_of scr2 s2 ++ concat (rest_of scr2 s2)).
Proof. exact identity_characterised. Qed.
Print Assumptions C08_characterised.

(** Partial injectivity: among commands with the same flag and the same per-token lengths, distinct
    commands have distinct identities in both stores ... *)
Theorem C08_partial_fixed_lengths : forall scr s1 s2,
  map (@length N) s1 = map (@length N) s2 ->
  (forall id, lru_id scr s1 = Ok id -> lru_id scr s2 = Ok id -> s1 = s2) /\
  (forall id, adapter_id scr s1 = Ok id -> adapter_id scr s2 = Ok id -> s1 = s2).
Proof. exact injective_fixed_lengths. Qed.
Print Assumptions C08_partial_fixed_lengths.

(** ... the built-in store separates all two-token commands (GET k, TTL k, PTTL k, ...) ... *)
Theorem C08_partial_two_tokens : forall scr1 scr2 a b a' b',
  lru_id scr1 [a; b] = lru_id scr2 [a'; b'] -> [a; b] = [a'; b'].
Proof. exact injective_two_tokens. Qed.
Print Assumptions C08_partial_two_tokens.

(** ... and MGET / JSON.MGET members are cached under the identities of GET k / JSON.GET k path. *)
Theorem C08_mget_agrees : forall (m : bytes) (keys : list bytes) i k,
  nth_error keys i = Some k -> hd 0 m <> 74 -> m <> [] ->
  mget_cache_cmd (m :: keys) = Ok get /\ mget_cache_key (m :: keys) i = Ok k /\ cache_key false [get; k] = Ok (k, get).
Proof. exact mget_agrees. Qed.
Print Assumptions C08_mget_agrees.

Theorem C08_json_mget_agrees : forall (m : bytes) (keys : list bytes) (path : bytes) i k,
  nth_error keys i = Some k -> hd 0 m = 74 ->
  mget_cache_cmd (m :: keys ++ [path]) = Ok (json_get ++ path) /\ mget_cache_key (m :: keys ++ [path]) i = Ok k /\
  cache_key false [json_get; k; path] = Ok (k, json_get ++ path).
Proof. exact json_mget_agrees. Qed.
Print Assumptions C08_json_mget_agrees.

(** non-vacuity: the witnesses are inside the characterised class; a fixed-length family is separated *)
Example C08_nonvacuous :
  concat_class false w1 false w2 = true /\ adapter_concat_class false w3 false w4 = true /\ concat_class false w3 false w4 = false /\
  lru_id false [s_getrange; [107]; [49]; [50; 51]] <> lru_id false [s_getrange; [107]; [50]; [49; 51]] /\
  cache_key true [[69; 86; 65; 76; 83; 72; 65; 95; 82; 79]; [115]; [49]; [107]; [97]] = Ok ([107], [69; 86; 65; 76; 83; 72; 65; 95; 82; 79; 115; 49; 97]).
Proof. repeat split; vm_compute; try reflexivity; discriminate. Qed.
