(** C26 — Pub/Sub delivers exactly the subscribed messages in order.

    Model: [RV.Model.PubSub], a labelled transition system of one connection: the reader goroutine
    ([handlePush], [subs.Publish] with its blocking sends into 16-slot channels, the clean-up of [_background]),
    any number of [Receive] callers (registration, the loop, context cancellation, the locked removal),
    [SetPubSubHooks] callers, [Close] / connection loss, and the server end of the connection
    (subscription sets, PUBLISH / SPUBLISH fan-out, confirmations, unsolicited unsubscribes).
    Every theorem quantifies over ALL schedules [ls] (every interleaving of those actions, any number of
    receivers with arbitrarily overlapping channel sets, any pattern-matching function [pm]) by
    [run pm (init b) ls = Some s]: [s] ranges over every reachable state.

    The code modelled is the repaired one (fix: Receive keeps consuming its channel while it waits for the
    SUBSCRIBE reply — see C26_nonvacuous_overlap, a schedule that dead-locked the unrepaired code). *)
From Coq Require Import String List Arith NArith ZArith Bool.
Require Import RV.Model.Base RV.Model.PsBase RV.Model.PubSub RV.Proofs.PubSubHookProofs RV.Proofs.PubSubProofs.
Import ListNotations.
Open Scope N_scope.
Open Scope list_scope.

(** ** delivery.  [st_hist s] is the sequence of message frames the reader has taken off the wire — the server's
    pushes on this connection in wire order; [window] cuts out those handled while the receiver was registered
    in [subs] (from [sb.Subscribe], which precedes its SUBSCRIBE, to the removal by an unsubscribe push, the
    clean-up or its own [cancel]); [fmsgs r] keeps those of [r]'s kind whose channel / pattern [r] named.
    (1) what was passed to [fn] is always a prefix of that sequence: in server order, no duplicate, no loss in the
        middle, nothing for another subscription;
    (2) while the receiver runs, delivered ++ buffered ++ about-to-be-sent is that whole sequence: nothing is lost;
    (3) a Receive that ended because its channel was closed (unsubscribe / Close / connection loss) was given
        exactly that sequence. *)
Theorem C26_delivery : forall pm b ls s, run pm (init b) ls = Some s ->
  forall r, In r (st_recvs s) ->
    (exists rest, rc_got r ++ rest = fmsgs r (window (st_hist s) r)) /\
    (rc_drain r = false -> rc_got r ++ rc_buf r ++ pend_msgs (rc_id r) (st_pend s) = fmsgs r (window (st_hist s) r)) /\
    (forall ret, rc_state r = RDone ret ByClose -> rc_got r = fmsgs r (window (st_hist s) r)).
Proof. exact delivery. Qed.
Print Assumptions C26_delivery.

(** the frames the reader handles are the frames the server sent, in order *)
Theorem C26_wire_order : forall pm b ls s, run pm (init b) ls = Some s -> st_hist s = msgs_of (st_handled s).
Proof. intros pm b ls s H. destruct (hook_reach pm b ls s H) as [_ HC]. apply (ci_hist _ HC). Qed.
Print Assumptions C26_wire_order.

(** never a message for another subscription — against the server's publish log: every delivered message was
    published (same channel, same body; SPUBLISH for a shard subscription, PUBLISH otherwise; to a channel its
    pattern matches for a pattern subscription) and its channel / pattern is one the Receive named *)
Theorem C26_no_foreign : forall pm b ls s, run pm (init b) ls = Some s ->
  forall r m, In r (st_recvs s) -> In m (rc_got r) ->
    mem_bytes (msg_key (rc_kind r) m) (rc_cs r) = true /\
    exists sh, In (sh, m_chan m, m_body m) (st_publog s) /\ (sh = true <-> rc_kind r = KS) /\
               (rc_kind r = KP -> pm (m_pat m) (m_chan m) = true) /\ (rc_kind r <> KP -> m_pat m = []).
Proof. exact delivered_was_published. Qed.
Print Assumptions C26_no_foreign.

(** ** return value: the context error iff it left by the context; nil only after an unsubscribe push naming one
    of its own channels; otherwise the error latched on the pipe (ErrClosing when Close came first). *)
Theorem C26_return : forall pm b ls s, run pm (init b) ls = Some s ->
  forall r ret how, In r (st_recvs s) -> rc_state r = RDone ret how ->
    (how = ByCtx -> ret = Some ECtx /\ rc_ctx r = true) /\
    (how = ByClose -> ret = None -> exists c, rc_by r = Some (RemUnsub c) /\ mem_bytes c (rc_cs r) = true) /\
    (how = ByClose -> forall e, ret = Some e -> st_perr s = Some e) /\
    (rc_by r = Some RemCleanup -> st_perr s <> None).
Proof. exact return_value. Qed.
Print Assumptions C26_return.

(** … and it does return: once its channel is closed and drained the loop's exit is enabled, with p.Error()
    (nil when nothing is latched) *)
Theorem C26_return_enabled : forall pm s r x, find_recv r (st_recvs s) = Some x ->
  rc_state x = RLoop -> rc_buf x = [] -> rc_open x = false ->
  step pm s (LEnd r) = Some (with_recvs s (upd_recv (finished (st_perr s) ByClose) r (st_recvs s))).
Proof. exact end_enabled. Qed.
Print Assumptions C26_return_enabled.

(** ** the channel returned by SetPubSubHooks: never a Go panic (close of a closed channel, send on a closed
    channel); closed at most once, and exactly once as soon as its hooks are not the installed ones any more;
    at most one error, none while it is open; once the pipe is dead and no SetPubSubHooks call is in flight
    every such channel is closed. *)
Theorem C26_hook_chan : forall pm b ls s, run pm (init b) ls = Some s ->
  st_panic s = false /\
  forall h, In h (st_hooks s) ->
    (hk_closed h <= 1)%nat /\ (length (hk_err h) <= 1)%nat /\
    (hk_closed h = 0%nat <-> st_cur s = Some (hk_id h)) /\
    (hk_closed h = 0%nat -> hk_err h = []) /\
    (st_cleaned s = true -> st_check s = [] -> hk_closed h = 1%nat).
Proof. exact hook_chan. Qed.
Print Assumptions C26_hook_chan.

(** ** non-vacuity.  Two overlapping Receives (one with a context), a pattern Receive, publishes, an unsubscribe,
    a cancellation and Close, under the canonical schedule of the correspondence run. *)
Definition ex_ops : list op :=
  [ OStart 1 KN [bs "a"; bs "b"] false; OStart 2 KN [bs "b"; bs "c"] true; OStart 3 KP [bs "b*"] false;
    OPublish false (bs "a") (bs "m1"); OPublish false (bs "b") (bs "m2"); OPublish false (bs "bb") (bs "m3");
    OPublish false (bs "c") (bs "m4");
    OUnsub KN [bs "a"];                                  (* ends receiver 1 with nil *)
    OPublish false (bs "b") (bs "m5");
    OCancel 2;                                           (* ends receiver 2 with the context error *)
    OPublish false (bs "b") (bs "m6");
    OClose EClosing ]%string.

Example C26_nonvacuous :
  let s := drive pm_simple (init false) ex_ops in
  map (fun r => (rc_id r, map m_body (rc_got r), rc_state r)) (st_recvs s) =
  [ (1, [bs "m1"; bs "m2"], RDone None ByClose);
    (2, [bs "m2"; bs "m4"; bs "m5"], RDone (Some ECtx) ByCtx);
    (3, [bs "m2"; bs "m3"; bs "m5"; bs "m6"], RDone (Some EClosing) ByClose) ]%string.
Proof. vm_compute. reflexivity. Qed.

(** the schedule that dead-locked the connection before the repair: 17 messages for channel x reach the second
    Receive's channel before its subscription is confirmed.  With the repaired Receive (LRecv enabled while
    waiting) the run goes through and both receivers get everything. *)
Definition overlap_schedule : list label :=
  [LSubscribe 1 KN [bs "x"] false; LSrvSub 1 KN [bs "x"]; LPush;
   LSubscribe 2 KN [bs "x"] false]%string ++
  flat_map (fun i => [LSrvPublish false (bs "x") [i]; LPush; LSend; LSend; LRecv 1; LRecv 2]%string)
           [1; 2; 3; 4; 5; 6; 7; 8; 9; 10; 11; 12; 13; 14; 15; 16; 17; 18; 19; 20] ++
  [LSrvSub 2 KN [bs "x"]; LPush]%string.

Example C26_nonvacuous_overlap :
  match run pm_simple (init false) overlap_schedule with
  | Some s => map (fun r => (rc_id r, length (rc_got r), rc_state r)) (st_recvs s) = [(1, 20%nat, RLoop); (2, 20%nat, RLoop)]
  | None => False
  end.
Proof. vm_compute. reflexivity. Qed.

(** without consuming while waiting, the 17th send to receiver 2 is not enabled: the reader is stuck *)
Example C26_old_deadlock_state :
  let sched := [LSubscribe 1 KN [bs "x"] false; LSrvSub 1 KN [bs "x"]; LPush; LSubscribe 2 KN [bs "x"] false]%string ++
               flat_map (fun i => [LSrvPublish false (bs "x") [i]; LPush; LSend; LSend; LRecv 1]%string)
                        [1; 2; 3; 4; 5; 6; 7; 8; 9; 10; 11; 12; 13; 14; 15; 16] ++
               [LSrvPublish false (bs "x") [17]; LPush; LSend; LRecv 1]%string in
  match run pm_simple (init false) sched with
  | Some s => step pm_simple s LSend = None /\ step pm_simple s LPush = None
  | None => False
  end.
Proof. vm_compute. split; reflexivity. Qed.
