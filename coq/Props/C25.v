(** C25 — Dedicated clients are isolated and single-use.

    Model: [RV.Model.Dedicated].  A wire of the blocking pool is idle or held by exactly one holder — a dedicated
    client or an ordinary blocking command ([mux.blocking] shares the pool); shared auto-pipelined traffic runs on
    other connections.  [d_log] is everything the server sees on the pool connections, with acquire / release markers.
    All theorems quantify over every program [ls]: any number of dedicated sessions, blocking commands and shared
    commands in any interleaving, sessions that subscribe, install hooks, switch tracking on, abandon a blocking
    command, are released, closed, and used again afterwards.  (The interleaving is one of whole client operations;
    the concurrency inside the pool itself is C24's subject — here the pool is its abstraction "idle | held by one".)

    The code modelled is the repaired one (fix: Close() of a released client no longer closes the recycled wire). *)
From Coq Require Import String List Arith NArith ZArith Bool.
Require Import RV.Model.Base RV.Model.PsBase RV.Model.Dedicated RV.Proofs.DedicatedProofs.
Import ListNotations.
Open Scope N_scope.
Open Scope list_scope.

(** ** exclusivity: replayed against the specification "a set of holders per wire", the log of every reachable state
    is accepted: a wire is acquired only when nobody holds it, every command on it between an acquire and the matching
    release is its holder's (the clean-up commands of Store included), and it is released by its holder.  So nothing
    can interleave with a WATCH / MULTI / EXEC sequence of a dedicated client. *)
Theorem C25_exclusive : forall f v ls s, drun (dinit f v) ls = Some s -> log_ok [] (d_log s) = true.
Proof. exact exclusive. Qed.
Print Assumptions C25_exclusive.

(** shared pipelines never use pool wires *)
Theorem C25_shared_elsewhere : forall s a s', dstep s (SDo a) = Some s' -> d_log s' = d_log s /\ d_wires s' = d_wires s.
Proof. exact shared_not_in_log. Qed.
Print Assumptions C25_shared_elsewhere.

(** ** single use: release and Close mark the client; the mark never goes away; every entry point of a marked client
    answers ErrDedicatedClientRecycled and changes nothing else — no command is written, no wire is touched (release
    and Close themselves become no-ops). *)
Theorem C25_recycled : forall s d,
  (forall s', (dstep s (DRelease d) = Some s' \/ dstep s (DClose d) = Some s') -> recycled s' d) /\
  (forall l s', recycled s d -> dstep s l = Some s' -> recycled s' d) /\
  (recycled s d ->
     (forall a, dstep s (DDo d a) = Some (add_res s d RRecycled)) /\
     (forall a, dstep s (DSubscribe d a) = Some (add_res s d RRecycled)) /\
     (forall a, dstep s (DBlockFail d a) = Some (add_res s d RRecycled)) /\
     (forall a, dstep s (DTrackingOn d a) = Some (add_res s d RRecycled)) /\
     (forall z i, dstep s (DSetHooks d z i) = Some (add_res s d RRecycled)) /\
     dstep s (DRelease d) = Some s /\ dstep s (DClose d) = Some s /\
     (forall a, dstep s (DTry d a) = None)).
Proof.
  intros s d. split; [intros s'; apply release_marks|]. split; [intros l s' R H; eapply recycled_sticky; eauto|apply recycled_rejects].
Qed.
Print Assumptions C25_recycled.

(** ** no send after release.  Do / DoMulti retry a read-only command after a retryable failure that leaves the
    connection healthy (-LOADING); every attempt re-checks the mark ([DTry] / [DDo] both start with check()).  So from a
    state in which the client is marked — released or closed at ANY point, in particular during the back-off of a call
    that is still in progress (from another goroutine or from the RetryDelay callback) — no step, and no continuation of
    the program, adds an event of that client to any connection's log: nothing of a released session reaches the
    server, whoever holds its former connection now (e.g. another session between MULTI and EXEC). *)
Theorem C25_no_send_after_release : forall ls s s' d, recycled s d -> drun s ls = Some s' ->
  exists evs, d_log s' = d_log s ++ evs /\ forall e, In e evs -> ev_holder e <> HDed d.
Proof. exact no_send_after_release_run. Qed.
Print Assumptions C25_no_send_after_release.

(** ** clean-up on release: the log grows by exactly Store's events, issued by the releasing client, ending with the
    release marker; the wire is in the idle list afterwards iff it is still usable. *)
Theorem C25_cleanup : forall s d c x,
  find_dc d (d_clients s) = Some c -> dc_mark c = false -> find_wire (dc_wire c) (d_wires s) = Some x ->
  exists s', dstep s (DRelease d) = Some s' /\
    d_log s' = d_log s ++ store_events x (HDed d) /\
    find_wire (dc_wire c) (d_wires s') = Some (stored_wire x) /\
    (In (dc_wire c) (d_idle s') <-> (w_dead x || w_blocked x = false \/ In (dc_wire c) (d_idle s))).
Proof. exact cleanup. Qed.
Print Assumptions C25_cleanup.

(** … spelled out: SetPubSubHooks({}) (no hooks, no invalidation callback left), CleanSubscriptions (UNSUBSCRIBE,
    PUNSUBSCRIBE, SUNSUBSCRIBE on version >= 7, DISCARD — if the pipe was pipelining; the connection is closed instead
    if a blocking command was abandoned on it), CLIENT TRACKING OFF iff an invalidation hook was installed, and only
    then the release marker; a dead wire is discarded. *)
Theorem C25_cleanup_sequence : forall x h,
  w_hooks (stored_wire x) = false /\ w_inval (stored_wire x) = false /\ w_holder (stored_wire x) = None /\
  (w_dead x = false -> w_blocked x = false ->
     store_events x h =
       (if w_bg x then [EvCmd (w_id x) h (WUnsub (w_v7 x))] else []) ++
       (if w_inval x then [EvCmd (w_id x) h WTrackingOff] else []) ++ [EvRel (w_id x) h true] /\
     w_dead (stored_wire x) = false /\
     (w_inval x = true -> w_tracking (stored_wire x) = false)) /\
  (w_dead x = false -> w_blocked x = true ->
     store_events x h = [EvCmd (w_id x) h WCloseConn; EvRel (w_id x) h false] /\ w_dead (stored_wire x) = true) /\
  (w_dead x = true -> store_events x h = [EvRel (w_id x) h false] /\ w_dead (stored_wire x) = true).
Proof. exact cleanup_spelled. Qed.
Print Assumptions C25_cleanup_sequence.

(** ** non-vacuity: two dedicated sessions, a blocking command and shared traffic; session 1 subscribes, installs an
    invalidation hook and is released; its wire is reused by session 2; session 1 is used after release *)
Definition ex_prog : list dlabel :=
  [ DAcquire 1; DDo 1 [bs "WATCH"; bs "k"]%string; SDo [bs "INCR"; bs "n"]%string; DSubscribe 1 [bs "SUBSCRIBE"; bs "c"]%string;
    DSetHooks 1 false true; DTrackingOn 1 [bs "CLIENT"; bs "TRACKING"; bs "ON"]%string;
    BDo 7 [bs "BLPOP"; bs "l"; bs "0"]%string false;
    DDo 1 [bs "MULTI"]%string; DDo 1 [bs "EXEC"]%string; DRelease 1;
    DAcquire 2; DDo 1 [bs "GET"; bs "k"]%string; DDo 2 [bs "GET"; bs "k"]%string; DClose 1; DRelease 2 ].

Example C25_nonvacuous :
  match drun (dinit 2 true) ex_prog with
  | Some s =>
    log_ok [] (d_log s) = true /\
    served_cmds 2 (d_log s) =
      [WUser [bs "WATCH"; bs "k"]; WUser [bs "SUBSCRIBE"; bs "c"]; WUser [bs "CLIENT"; bs "TRACKING"; bs "ON"];
       WUser [bs "MULTI"]; WUser [bs "EXEC"]; WUnsub true; WTrackingOff; WUser [bs "GET"; bs "k"]; WUnsub true]%string /\
    served_cmds 3 (d_log s) = [WUser [bs "BLPOP"; bs "l"; bs "0"]]%string /\
    d_res s = [(1, ROk); (1, ROk); (1, ROk); (1, ROk); (1, ROk); (1, ROk); (1, RRecycled); (2, ROk)] /\
    d_idle s = [2; 3]
  | None => False
  end.
Proof. vm_compute. repeat split. Qed.

(** non-vacuity of the retry loop: session 1's GET gets -LOADING (first attempt, [DTry]); during the back-off session 1
    is released, session 2 acquires the same wire and opens a transaction; session 1's second attempt is rejected
    (RRecycled) and writes nothing: the wire's log shows session 2's MULTI, SET, EXEC uninterrupted. *)
Definition ex_retry : list dlabel :=
  [ DAcquire 1; DDo 1 [bs "SET"; bs "k"; bs "v"]%string; DTry 1 [bs "GET"; bs "r"]%string;
    DRelease 1; DAcquire 2; DDo 2 [bs "MULTI"]%string; DDo 2 [bs "SET"; bs "k2"; bs "v"]%string;
    DDo 1 [bs "GET"; bs "r"]%string;
    DDo 2 [bs "EXEC"]%string; DRelease 2 ].

Example C25_nonvacuous_retry :
  match drun (dinit 2 true) ex_retry with
  | Some s =>
    log_ok [] (d_log s) = true /\
    served_cmds 2 (d_log s) =
      [WUser [bs "SET"; bs "k"; bs "v"]; WUser [bs "GET"; bs "r"];
       WUser [bs "MULTI"]; WUser [bs "SET"; bs "k2"; bs "v"]; WUser [bs "EXEC"]]%string /\
    d_res s = [(1, ROk); (2, ROk); (2, ROk); (1, RRecycled); (2, ROk)] /\
    drun (dinit 2 true) (firstn 4 ex_retry ++ [DTry 1 [bs "GET"; bs "r"]%string]) = None
  | None => False
  end.
Proof. vm_compute. repeat split. Qed.

