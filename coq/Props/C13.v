(** C13 — RESP decoding rejects malformed input without crashing.

    [decode B input] runs the model of readNextMessage (Model/Resp.v, transcribed from resp.go after the
    repair of this property's defect) on an ARBITRARY byte string.  In the model every Go operation that
    can panic is a partial primitive -- make([]T, n) ([alloc_make]: panics for n < 0 or n*sizeof(T) > 2^48,
    runtime.makeslice), strings.Builder.Grow ([grow]: panics for n < 0), msgs[n] (index check in the loop
    of readA) -- and every allocation the decoder asks for is metered ([OAlloc]: make, Grow, the line
    returned by ReadBytes, the bytes appended to the Builder, 40 bytes per append).

    On the unchanged code the property was violated ($-2, *-2, %-1, %4611686018427387904 panic in
    makeslice; $99999999999 allocates 100 GB before any payload byte): see known_findings.d/resp.json and
    docs/resp.md.  The theorems are about the repaired code.

    [input_bound] = 2^40 bytes: beyond a terabyte of input the doubling buffers could reach Go's 2^48-byte
    allocation limit, which is a panic in the model (in reality memory is exhausted long before). *)
From Coq Require Import List Arith NArith ZArith Bool.
From Coq Require Import String.
Require Import RV.Model.Base RV.Model.RespWrite RV.Model.Resp.
Require Import RV.Model.RespStream.
Require Import RV.Proofs.RespSafetyBase RV.Proofs.RespSafety RV.Proofs.RespSafetyMain RV.Proofs.RespStreamSafety.
Import ListNotations.
Open Scope N_scope.

(** no byte string makes the decoder panic, whatever the buffer size *)
Theorem C13_no_panic : forall (B : nat) (input : bytes),
  blen input < input_bound -> fst (fst (decode B input)) <> Panic.
Proof. exact decode_no_panic. Qed.
Print Assumptions C13_no_panic.

(** every byte string is answered by a value or by an error *)
Theorem C13_error_or_value : forall (B : nat) (input : bytes),
  blen input < input_bound ->
  (exists m, fst (fst (decode B input)) = Ok m) \/ (exists e, fst (fst (decode B input)) = Err e).
Proof.
  intros B input Hb. pose proof (decode_no_panic B input Hb) as Hp.
  destruct (fst (fst (decode B input))) as [m|e|]; [left; eauto|right; eauto|congruence].
Qed.
Print Assumptions C13_error_or_value.

(** the memory requested while decoding is at most 200 bytes per byte CONSUMED from the connection plus
    384 KiB, for every byte string -- in particular whatever lengths it declares *)
Theorem C13_alloc_bounded : forall (B : nat) (input : bytes),
  blen input < input_bound ->
  let '(r, rest, al) := decode B input in
  blen rest <= blen input /\ al <= 200 * (blen input - blen rest) + 393216.
Proof. exact decode_alloc_bounded. Qed.
Print Assumptions C13_alloc_bounded.

(** a reply that decodes successfully costs at most 200 bytes per byte of the reply (no additive term) *)
Theorem C13_alloc_success : forall (B : nat) (input : bytes) (m : msg) (rest : bytes) (al : N),
  blen input < input_bound -> decode B input = (Ok m, rest, al) ->
  blen rest + 1 <= blen input /\ al + 160 <= 200 * (blen input - blen rest).
Proof. exact decode_alloc_success. Qed.
Print Assumptions C13_alloc_success.

(** the same for every nested call, every amount of fuel, and the loops of readA / readE
    (this is the statement the induction proves; [invG] is the amortisation invariant of the doubling buffer) *)
Theorem C13_all_readers : forall (B fuel : nat),
  rn_ok B (read_next fuel) /\ ral_ok B (read_a_loop fuel) /\ rel_ok B (read_e_loop fuel).
Proof. exact safety_all. Qed.
Print Assumptions C13_all_readers.

(** the streaming reader (streamTo) does not panic either: every byte string, every writer failure point *)
Theorem C13_stream_no_panic : forall (B : nat) (budget : option N) (input : bytes),
  blen input < input_bound -> snd (fst (fst (fst (stream B budget input)))) <> SPanic.
Proof.
  intros B budget input Hb. unfold stream.
  destruct (stream_no_panic B (fuel_for (List.length input))) as [H _].
  specialize (H input (w_init budget) Hb). unfold no_spanic in H.
  destruct (runw B (stream_to (fuel_for (List.length input))) input (w_init budget)) as [[o rest] w]. exact H.
Qed.
Print Assumptions C13_stream_no_panic.

(** non-vacuity: the inputs that crashed or exhausted memory before the repair are now errors, and
    what they make the decoder allocate is small *)
Example C13_nonvacuous :
  fst (decode 32 (h "242d320d0a")) = (Err eBadLength, [])                         (* $-2\r\n *)
  /\ fst (decode 32 (h "2a2d320d0a")) = (Err eBadLength, [])                      (* *-2\r\n *)
  /\ fst (decode 32 (h "252d310d0a")) = (Err eBadLength, [])                      (* %-1\r\n *)
  /\ fst (decode 32 (h "25343631313638363031383432373338373930340d0a")) = (Err eBadLength, [])   (* %4611686018427387904\r\n *)
  /\ decode 32 (h "2439393939393939393939390d0a") = (Err eEOF, [], 65536)         (* $99999999999\r\n *)
  /\ decode 32 (h "2a39393939393939393939390d0a") = (Err eEOF, [], 640)           (* *99999999999\r\n *)
  /\ decode 32 (h "243f0d0a3b39393939393939393939390d0a61") = (Err eEOF, [], 65536).  (* $?\r\n;99999999999\r\na *)
Proof. vm_compute. repeat split. Qed.

(** non-vacuity of the allocation bound on the doubling schedule: a reply that declares 2^63-1 bytes and delivers
    200 000: the buffer was allocated as 64 KiB, 128 KiB, 256 KiB (448 KiB for 200 022 bytes consumed), then EOF *)
Example C13_nonvacuous_doubling :
  decode 4096 (h "24393232333337323033363835343737353830370d0a" ++ rep_bytes [97] 200000)%list
  = (Err eUnexpectedEOF, [], 458752).
Proof. vm_compute. reflexivity. Qed.
