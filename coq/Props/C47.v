(** C47 — Connection setup applies the configured session settings.

    Model: [RV.Model.Setup] transcribes pipe.go [_newPipe] (the two command lists, the two loops that examine
    the replies, the RESP3 -> RESP2 fallback, ErrNoCache) and sentinel.go [newSentinelOpt].  All theorems
    quantify over every option record [o] (any strings, any database number, any tracking option list,
    any ClientSetInfo slice) and every list of replies (any classes, any length: a short list is a
    connection that broke). *)
From Coq Require Import String List Arith NArith ZArith Bool.
Require Import RV.Model.Base RV.Model.PsBase RV.Model.Setup RV.Proofs.SetupProofs.
Import ListNotations.
Open Scope N_scope.
Open Scope string_scope.
Open Scope list_scope.

(** ** contents: each setting's command occurs exactly when configured, exactly once, with the configured value.
    [filter fam l = [c]] says: [c] is in [l], once, and no other command of that family is. *)
Theorem C47_contents : forall o u p, creds o = Some (u, p) ->
  (* RESP3 list *)
  hd_error (init3 o) = Some (hello_cmd u p (o_name o)) /\
  filter (is_cmd "HELLO") (init3 o) = [hello_cmd u p (o_name o)] /\
  filter (is_cmd "AUTH") (init3 o) = [] /\
  filter (is_cmd "INFO") (init3 o) = (if o_az o then [[bs "INFO"; bs "SERVER"]] else []) /\
  filter (is_client "TRACKING") (init3 o) = (if o_nocache o then [] else [tracking_cmd o]) /\
  filter (is_cmd "SELECT") (init3 o) = (if (o_db o =? 0)%Z then [] else [[bs "SELECT"; itoa (o_db o)]]) /\
  filter (is_cmd "READONLY") (init3 o) = (if o_replica o && negb (o_sentinel o) then [[bs "READONLY"]] else []) /\
  filter (is_client "NO-TOUCH") (init3 o) = (if o_notouch o then [[bs "CLIENT"; bs "NO-TOUCH"; bs "ON"]] else []) /\
  filter (is_client "NO-EVICT") (init3 o) = (if o_noevict o then [[bs "CLIENT"; bs "NO-EVICT"; bs "ON"]] else []) /\
  filter (is_client "CAPA") (init3 o) = (if o_redirect o then [[bs "CLIENT"; bs "CAPA"; bs "redirect"]] else []) /\
  filter (is_client "SETINFO") (init3 o) = setinfo_cmds o /\
  (* RESP2 list *)
  filter (is_cmd "AUTH") (init2 o) = auth2_cmds u p /\
  filter (is_cmd "HELLO") (init2 o) = [[bs "HELLO"; bs "2"]] /\
  filter (is_client "SETNAME") (init2 o) = (if is_empty (o_name o) then [] else [[bs "CLIENT"; bs "SETNAME"; o_name o]]) /\
  filter (is_client "TRACKING") (init2 o) = [] /\
  filter (is_cmd "SELECT") (init2 o) = (if (o_db o =? 0)%Z then [] else [[bs "SELECT"; itoa (o_db o)]]) /\
  filter (is_cmd "READONLY") (init2 o) = (if o_replica o && negb (o_sentinel o) then [[bs "READONLY"]] else []) /\
  filter (is_client "NO-TOUCH") (init2 o) = (if o_notouch o then [[bs "CLIENT"; bs "NO-TOUCH"; bs "ON"]] else []) /\
  filter (is_client "NO-EVICT") (init2 o) = (if o_noevict o then [[bs "CLIENT"; bs "NO-EVICT"; bs "ON"]] else []) /\
  filter (is_client "CAPA") (init2 o) = (if o_redirect o then [[bs "CLIENT"; bs "CAPA"; bs "redirect"]] else []) /\
  filter (is_client "SETINFO") (init2 o) = setinfo_cmds o.
Proof.
  intros o u p Hc.
  split. { destruct (count3_pos o u p Hc) as [rest [E _]]. rewrite E. reflexivity. }
  repeat split;
    eauto using init3_hello, init3_auth, init3_info, init3_tracking, init3_select, init3_readonly, init3_notouch,
      init3_noevict, init3_capa, init3_setinfo, init2_auth, init2_hello, init2_setname, init2_tracking, init2_select,
      init2_readonly, init2_notouch, init2_noevict, init2_capa, init2_setinfo.
Qed.
Print Assumptions C47_contents.

(** AUTH (inside HELLO 3, or as the separate RESP2 command) iff credentials; a lone password authenticates "default" *)
Theorem C47_credentials : forall u p n,
  hello_cmd u p n = [bs "HELLO"; bs "3"] ++ auth_args u p ++ (if is_empty n then [] else [bs "SETNAME"; n]) /\
  auth_args u p = match u, p with
                  | [], [] => []
                  | [], _ => [bs "AUTH"; bs "default"; p]
                  | _, _ => [bs "AUTH"; u; p]
                  end /\
  auth2_cmds u p = match u, p with
                   | [], [] => []
                   | [], _ => [[bs "AUTH"; p]]
                   | _, _ => [[bs "AUTH"; u; p]]
                   end.
Proof. intros u p n. split; [reflexivity|]. split; [apply auth_args_spec|apply auth2_cmds_spec]. Qed.
Print Assumptions C47_credentials.

(** the library-info pair: the configured pair, the library's own name / version for a nil slice, nothing otherwise *)
Theorem C47_setinfo : forall o,
  setinfo_cmds o =
    match o_setinfo o with
    | Some [n; v] => [[bs "CLIENT"; bs "SETINFO"; bs "LIB-NAME"; n]; [bs "CLIENT"; bs "SETINFO"; bs "LIB-VER"; v]]
    | None => [[bs "CLIENT"; bs "SETINFO"; bs "LIB-NAME"; o_libname o]; [bs "CLIENT"; bs "SETINFO"; bs "LIB-VER"; o_libver o]]
    | Some _ => []
    end.
Proof. reflexivity. Qed.
Print Assumptions C47_setinfo.

(** ** the session in force at the server when a RESP3 setup succeeds (the effect of the accepted commands):
    protocol 3, the configured name, credentials, database, tracking mode, NO-TOUCH, NO-EVICT, CAPA redirect;
    READONLY only for a replica-only non-sentinel configuration (its error is tolerated, so only one direction). *)
Theorem C47_session : forall o u p r3 r2,
  creds o = Some (u, p) -> eval_setup o r3 r2 = SetupOk true ->
  let s := final_session o r3 r2 in
  s_proto s = 3 /\
  s_name s = o_name o /\
  s_auth s = match u, p with
             | [], [] => None
             | [], _ => Some (bs "default", p)
             | _, _ => Some (u, p)
             end /\
  s_db s = (if (o_db o =? 0)%Z then bs "0" else itoa (o_db o)) /\
  s_track s = (if o_nocache o then None else Some (track_args o)) /\
  s_notouch s = o_notouch o /\ s_noevict s = o_noevict o /\ s_redirect s = o_redirect o /\
  (s_readonly s = true -> o_replica o && negb (o_sentinel o) = true).
Proof. exact setup_session3. Qed.
Print Assumptions C47_session.

(** … and when the RESP2 setup succeeds, for a server that names HELLO as unknown only in answer to HELLO
    ([honest2]; _newPipe goes by the error text on every step, see C47_step_failure_resp2) *)
Theorem C47_session_resp2 : forall o u p r3 r2,
  creds o = Some (u, p) -> eval_setup o r3 r2 = SetupOk false -> honest2 o r2 ->
  let s := final_session o r3 r2 in
  s_db s = (if (o_db o =? 0)%Z then bs "0" else itoa (o_db o)) /\
  s_track s = None /\
  s_notouch s = o_notouch o /\ s_noevict s = o_noevict o /\ s_redirect s = o_redirect o /\
  (is_empty (o_name o) = false -> s_name s = o_name o) /\
  (s_readonly s = true -> o_replica o && negb (o_sentinel o) = true).
Proof. exact setup_session2. Qed.
Print Assumptions C47_session_resp2.

(** ** before any user command: a connection carries its whole setup first, and user commands only if the setup
    succeeded — which requires every reply of every pipeline that ran to have arrived. *)
Theorem C47_before_user : forall o r3 r2 user,
  (forall b, eval_setup o r3 r2 = SetupOk b -> conn_log o r3 r2 user = setup_cmds o r3 ++ user) /\
  (forall f, eval_setup o r3 r2 = SetupFail f -> conn_log o r3 r2 user = setup_cmds o r3) /\
  (eval_setup o r3 r2 = SetupOk true ->
     setup_cmds o r3 = init3 o /\ complete (length (init3 o)) r3 = true) /\
  (eval_setup o r3 r2 = SetupOk false ->
     setup_cmds o r3 = (if o_resp2 o then [] else init3 o) ++ init2 o /\
     (o_resp2 o = false -> complete (length (init3 o)) r3 = true) /\
     complete (length (init2 o)) r2 = true) /\
  (creds o = None -> eval_setup o r3 r2 = SetupFail FCred /\ conn_log o r3 r2 user = []).
Proof.
  intros o r3 r2 user. repeat split.
  - intros b H. eapply conn_log_ok; eauto.
  - intros f H. eapply conn_log_fail; eauto.
  - eapply setup_cmds_ok3; eauto.
  - destruct (ok3_clean _ _ _ H) as [_ [X _]]. exact X.
  - eapply setup_cmds_ok2; eauto.
  - destruct (ok2_clean _ _ _ H) as [_ [X _]]. exact X.
  - destruct (ok2_clean _ _ _ H) as [_ [_ [X _]]]. exact X.
  - destruct (cred_failure o r3 r2 user H) as [X _]. exact X.
  - destruct (cred_failure o r3 r2 user H) as [_ X]. exact X.
Qed.
Print Assumptions C47_before_user.

(** ** every setup step failing.
    RESP3 pipeline: the first examined reply (all but the two trailing CLIENT SETINFO) that is an error fails the
    connection, unless the command is READONLY or the error names HELLO as an unknown command (the fallback). *)
Theorem C47_step_failure : forall o u p r3 r2 k c,
  creds o = Some (u, p) -> o_resp2 o = false ->
  (k < count_of o (init3 o))%nat -> nth_error (init3 o) k = Some c -> head_is (bs "READONLY") c = false ->
  (forall j, (j < k)%nat -> exam (o_az o) j (nth j r3 RIO) = ENone) ->
  exam (o_az o) k (nth k r3 RIO) <> ENone -> exam (o_az o) k (nth k r3 RIO) <> ERedis true ->
  exists f, eval_setup o r3 r2 = SetupFail f.
Proof. exact step_failure3. Qed.
Print Assumptions C47_step_failure.

(** RESP2 pipeline, same statement (there the "unknown command HELLO" text is tolerated on every step) *)
Theorem C47_step_failure_resp2 : forall o u p r3 r2 k c,
  creds o = Some (u, p) -> eval3 o r3 = S1Fallback ->
  (k < count_of o (init2 o))%nat -> nth_error (init2 o) k = Some c -> head_is (bs "READONLY") c = false ->
  (forall j, (j < k)%nat -> err_of (nth j (r2_eff o r3 r2) RIO) = ENone) ->
  err_of (nth k (r2_eff o r3 r2) RIO) <> ENone -> err_of (nth k (r2_eff o r3 r2) RIO) <> ERedis true ->
  exists f, eval_setup o r3 r2 = SetupFail f.
Proof. exact step_failure2. Qed.
Print Assumptions C47_step_failure_resp2.

(** the converse: a successful setup saw no error at any examined step (READONLY aside) — not only at the first *)
Theorem C47_ok_clean : forall o r3 r2,
  (eval_setup o r3 r2 = SetupOk true ->
     forall k c, (k < count_of o (init3 o))%nat -> nth_error (init3 o) k = Some c -> head_is (bs "READONLY") c = false ->
       exam (o_az o) k (nth k r3 RIO) = ENone) /\
  (eval_setup o r3 r2 = SetupOk false ->
     forall k c, (k < count_of o (init2 o))%nat -> nth_error (init2 o) k = Some c -> head_is (bs "READONLY") c = false ->
       err_of (nth k r2 RIO) = ENone \/ err_of (nth k r2 RIO) = ERedis true).
Proof.
  intros o r3 r2. split; intros H.
  - destruct (ok3_clean _ _ _ H) as [_ [_ [X _]]]. exact X.
  - destruct (ok2_clean _ _ _ H) as [_ [_ [_ X]]]. exact X.
Qed.
Print Assumptions C47_ok_clean.

(** a broken connection (a reply missing anywhere in the pipeline, even an unexamined one) fails the setup *)
Theorem C47_io_failure : forall o u p r3 r2,
  creds o = Some (u, p) -> o_resp2 o = false -> complete (length (init3 o)) r3 = false ->
  eval_setup o r3 r2 = SetupFail FOther.
Proof. exact incomplete_fails. Qed.
Print Assumptions C47_io_failure.

(** RESP2 only when asked for, or a reply names HELLO as unknown, or HELLO itself reports a protocol below 3;
    and never with the client-side cache enabled (ErrNoCache instead). *)
Theorem C47_fallback : forall o r3 r2,
  (eval_setup o r3 r2 = SetupOk false ->
     o_resp2 o = true \/
     (exists k, (k < count_of o (init3 o))%nat /\ exam (o_az o) k (nth k r3 RIO) = ERedis true) \/
     (exists pr, nth 0 r3 RIO = RMapP pr /\ (pr < 3)%Z)) /\
  (forall b, eval_setup o r3 r2 = SetupOk b -> o_nocache o = false -> b = true).
Proof.
  intros o r3 r2. split; [apply fallback_only_hello|]. intros b. apply cache_needs_resp3.
Qed.
Print Assumptions C47_fallback.

(** sentinel connections: the sentinel credentials and name, never a SELECT *)
Theorem C47_sentinel_conn : forall o u p, creds (sentinel_opt o) = Some (u, p) ->
  hd_error (init3 (sentinel_opt o)) = Some (hello_cmd u p (o_s_name o)) /\
  filter (is_cmd "SELECT") (init3 (sentinel_opt o)) = [] /\
  filter (is_cmd "SELECT") (init2 (sentinel_opt o)) = [] /\
  (o_credfn o = None -> u = o_s_user o /\ p = o_s_pass o).
Proof.
  intros o u p Hc. repeat split.
  - destruct (count3_pos (sentinel_opt o) u p Hc) as [rest [E _]]. rewrite E. reflexivity.
  - rewrite (init3_select (sentinel_opt o) u p Hc). reflexivity.
  - rewrite (init2_select (sentinel_opt o) u p Hc). reflexivity.
  - unfold creds, sentinel_opt in Hc. cbn in Hc. rewrite H in Hc. congruence.
  - unfold creds, sentinel_opt in Hc. cbn in Hc. rewrite H in Hc. congruence.
Qed.
Print Assumptions C47_sentinel_conn.

(** ** non-vacuity: a full configuration; success; each kind of failure; the fallback *)
Definition ex_opts : opts :=
  mkOpts (bs "alice") (bs "s3cret") None (bs "conn") true false (Some [bs "BCAST"; bs "PREFIX"; bs "p:"]) 3%Z
         true false true true true None false (bs "rueidis") (bs "1.0.76") [] [] [].

Example C47_nonvacuous_lists :
  init3 ex_opts =
    [[bs "HELLO"; bs "3"; bs "AUTH"; bs "alice"; bs "s3cret"; bs "SETNAME"; bs "conn"];
     [bs "INFO"; bs "SERVER"];
     [bs "CLIENT"; bs "TRACKING"; bs "ON"; bs "BCAST"; bs "PREFIX"; bs "p:"];
     [bs "SELECT"; bs "3"]; [bs "READONLY"];
     [bs "CLIENT"; bs "NO-TOUCH"; bs "ON"]; [bs "CLIENT"; bs "NO-EVICT"; bs "ON"]; [bs "CLIENT"; bs "CAPA"; bs "redirect"];
     [bs "CLIENT"; bs "SETINFO"; bs "LIB-NAME"; bs "rueidis"]; [bs "CLIENT"; bs "SETINFO"; bs "LIB-VER"; bs "1.0.76"]].
Proof. vm_compute. reflexivity. Qed.

Example C47_nonvacuous_outcomes :
  let ok := [RMapP 3; RStr; RStr; RStr; RStr; RStr; RStr; RStr; RStr; RStr] in
  eval_setup ex_opts ok [] = SetupOk true /\
  (* READONLY and the trailing SETINFO may fail *)
  eval_setup ex_opts [RMapP 3; RStr; RStr; RStr; RErr false; RStr; RStr; RStr; RErr false; RErr false] [] = SetupOk true /\
  (* SELECT fails *)
  eval_setup ex_opts [RMapP 3; RStr; RStr; RErr false; RStr; RStr; RStr; RStr; RStr; RStr] [] = SetupFail FRedis /\
  (* a CLIENT step fails: ErrNoCache *)
  eval_setup ex_opts [RMapP 3; RStr; RStr; RStr; RStr; RErr false; RStr; RStr; RStr; RStr] [] = SetupFail FNoCache /\
  (* the connection breaks before the last (unexamined) reply *)
  eval_setup ex_opts [RMapP 3; RStr; RStr; RStr; RStr; RStr; RStr; RStr; RStr] [] = SetupFail FOther /\
  (* HELLO unknown with the cache enabled: ErrNoCache (the tracking command fails as well on such a server) *)
  eval_setup ex_opts [RErr true; RStr; RErr false; RStr; RStr; RStr; RStr; RStr; RStr; RStr] [] = SetupFail FNoCache /\
  (* HELLO unknown with the cache disabled: the RESP2 pipeline runs and succeeds *)
  eval_setup (mkOpts [] (bs "pw") None [] false true None 0%Z false false false false false None false (bs "rueidis") (bs "1") [] [] [])
             [RErr true; RStr; RStr] [RStr; RErr true; RStr; RStr] = SetupOk false.
Proof. vm_compute. repeat split. Qed.
