(** C43 — Hooks intercept every request path.

    "A client wrapped with rueidishook.WithHook routes every Do, DoMulti, DoCache, DoMultiCache, Receive,
    DoStream and DoMultiStream call, including calls made through Dedicated, Dedicate and the clients
    returned by Nodes, through the hook exactly once, and returns the hook's result unchanged."

    [hook_table] is regenerated from rueidishook/hook.go on every run (Gen/HookDeleg.v): for each method of
    hookclient / dedicated / extended, the callee, the receiver handed over, how parameters are forwarded
    and whether derived clients are wrapped again.  [C43_table] is the finite obligation re-proved by the
    kernel each run; the other theorems hold for every wrapper value, i.e. for clients derived through any
    sequence of Dedicated / Dedicate / Nodes, of any length, over any underlying client topology [en]. *)
From Coq Require Import List Arith NArith Bool Lia.
Require Import RV.Model.Base RV.Model.Hook RV.Gen.HookDeleg RV.Model.HookGen.
Require Import RV.Proofs.HookProofs RV.Proofs.HookGenProofs.
Import ListNotations.
Open Scope N_scope.

Theorem C43_table : table_ok hook_table = true.
Proof. exact gen_table_ok. Qed.
Print Assumptions C43_table.

(** every request entry point of a hooked client (HC) or of a hooked dedicated client (HD): exactly one event,
    an invocation of the hook method of the same name, handed the underlying un-hooked client (so that the hook's
    own use of that client does not come back to the hook); no derived values; the caller gets the callee's result *)
Theorem C43_once : forall en v m, In m (requests_of v) ->
  call hook_table en v m = Some ([EvHook m (inner_of v)], [], true).
Proof. intros en v m. exact (request_once hook_table gen_table_ok en v m). Qed.
Print Assumptions C43_once.

(** Dedicated(fn) hands fn a hooked dedicated client, Dedicate() returns one, Nodes() returns a hooked client for
    every node — each holding the same hook *)
Theorem C43_derived_are_wrapped : forall en i,
  derive1 hook_table en (HC i) DDedicated = Some (HD (env_dedicate en i)) /\
  derive1 hook_table en (HC i) DDedicate = Some (HD (env_dedicate en i)) /\
  forall k, derive1 hook_table en (HC i) (DNode k) = nth_error (map HC (env_nodes en i)) k.
Proof. intros en i. exact (derive_defined hook_table gen_table_ok en i). Qed.
Print Assumptions C43_derived_are_wrapped.

(** hence, by induction on the derivation: every request through a client obtained by any chain of
    Dedicated / Dedicate / Nodes from WithHook(c0) passes through the hook exactly once *)
Theorem C43_all_derived : forall en c0 p v m,
  derive hook_table en (HC c0) p = Some v -> In m (requests_of v) ->
  call hook_table en v m = Some ([EvHook m (inner_of v)], [], true).
Proof. intros en c0 p v m. exact (derived_request_once hook_table gen_table_ok en p (HC c0) v m). Qed.
Print Assumptions C43_all_derived.

(** a chain of derivations from a hooked client is always defined as long as the underlying topology has the node *)
Theorem C43_derive_total : forall en p c0,
  (forall v k, In (DNode k) p -> (k < length (env_nodes en (inner_of v)))%nat) ->
  Forall (fun d => match d with DNode _ => True | _ => False end) p ->
  exists v, derive hook_table en (HC c0) p = Some v /\ exists i, v = HC i.
Proof.
  intros en p. induction p as [|d p IH]; intros c0 Hk Hn.
  - exists (HC c0). split; [reflexivity|eauto].
  - inversion Hn as [|? ? Hd Hr]; subst. destruct d as [| |k]; try contradiction.
    cbn [derive]. destruct (C43_derived_are_wrapped en c0) as (_ & _ & N). rewrite N.
    assert (Hlt : (k < length (env_nodes en c0))%nat) by (apply (Hk (HC c0) k); now left).
    destruct (nth_error (map HC (env_nodes en c0)) k) as [v|] eqn:E.
    + apply nth_error_In in E. apply in_map_iff in E. destruct E as (j & <- & _).
      apply IH; [intros v' k' H'; apply Hk; now right|exact Hr].
    + apply nth_error_None in E. rewrite map_length in E. lia.
Qed.
Print Assumptions C43_derive_total.

(** Stacked hooks WithHook(…WithHook(WithHook(c0, h_1), h_2)…, h_n): every hook of the stack sees each request exactly
    once, outermost first, then the underlying client — by induction over the stack depth.  (Each hook is assumed to
    pass the request on once to the client it is handed.) *)
Theorem C43_stack_once : forall ls c0 m, In m client_requests ->
  scall hook_table (stack ls c0) m = Some (map (fun l => SHook l m) ls ++ [SInner m c0]).
Proof. exact (stack_once hook_table gen_table_ok). Qed.
Print Assumptions C43_stack_once.

(** … also on every client derived from the stack through any chain of Nodes / Dedicate / Dedicated: the derived
    client is again a stack of all the hooks, over the derived underlying client *)
Theorem C43_stack_all_derived : forall en p ls c0 x,
  sderive hook_table en (stack ls c0) p = Some x ->
  (exists j, x = inl (stack ls j) /\
     forall m, In m client_requests -> scall hook_table (stack ls j) m = Some (map (fun l => SHook l m) ls ++ [SInner m j])) \/
  (exists j, x = inr (dstack ls j) /\
     forall m, In m dedicated_requests -> sdcall hook_table (dstack ls j) m = Some (map (fun l => SHook l m) ls ++ [SInner m j])).
Proof.
  intros en p ls c0 x H.
  destruct (stack_derive hook_table gen_table_ok en p ls c0 x H) as [[j ->]|[j ->]].
  - left. exists j. split; [reflexivity|]. intros m Hm. now apply (stack_once hook_table gen_table_ok).
  - right. exists j. split; [reflexivity|]. intros m Hm. now apply (dstack_once hook_table gen_table_ok).
Qed.
Print Assumptions C43_stack_all_derived.

Theorem C43_stack_derivations : forall en ls c0,
  sdedicate hook_table en mDedicate (stack ls c0) = Some (dstack ls (env_dedicate en c0)) /\
  sdedicate hook_table en mDedicated (stack ls c0) = Some (dstack ls (env_dedicate en c0)) /\
  snodes hook_table en (stack ls c0) = Some (map (stack ls) (env_nodes en c0)).
Proof.
  intros en ls c0. destruct (stack_dedicate hook_table gen_table_ok en ls c0) as [A B].
  repeat split; try assumption. apply (stack_nodes hook_table gen_table_ok).
Qed.
Print Assumptions C43_stack_derivations.

Example C43_nonvacuous_stack :
  match sderive hook_table test_env (stack [3; 2; 1] 7) [DNode 0; DDedicated] with
  | Some (inr d) => sdcall hook_table d mDo
  | _ => None
  end = Some [SHook 3 mDo; SHook 2 mDo; SHook 1 mDo; SInner mDo 721].
Proof. vm_compute. reflexivity. Qed.

(** non-vacuity: Do on a node's dedicated client of a hooked client *)
Example C43_nonvacuous :
  match derive hook_table test_env (HC 7) [DNode 1; DDedicate] with
  | Some v => call hook_table test_env v mDoMulti
  | None => None
  end = Some ([EvHook mDoMulti 731], [], true).
Proof. vm_compute. reflexivity. Qed.
