(** C34 — Distributed locks are mutually exclusive and notice loss.

    Model: Model/Lock.v — one lock name, its 2m-1 keys on one server clock, any number of lock attempts, at
    round-trip granularity (a script round trip together with the caller's handling of the reply is one
    atomic step; so are the return of [try], the validity timer, cancel, Locker.Close, a clock advance with
    expiry, a deletion by somebody else).  The theorems quantify over all schedules ([list label]), all
    numbers of attempts and every majority m >= 1.  Not modelled: goroutine scheduling inside a step, real
    time (timers are steps that may fire at any moment), several lock names, several attempts of one locker
    sharing the gate channels (the gate model has one waiter).  Owner values ([random()]) are assumed distinct.

    The theorems are about the repaired order of [monitoring] ([c_early = true], fix "rueidislock cancels the lock
    context before releasing the key that costs the majority"); suspicion S5 of DESIGN.md is confirmed on the
    original order by [C34_done_before_release_unfixed_refuted] (and by the replay corpus/C34/S5-*.json on the
    real code). *)
From Coq Require Import List Arith NArith ZArith Bool Lia.
Require Import RV.Model.Base RV.Model.Lock RV.Proofs.LockProofs.
Import ListNotations.
Open Scope nat_scope.

(** MUTUAL EXCLUSION.  In every schedule in which nobody forces, nobody else deletes keys, the locker is not
    closed, every extension of a running monitor reaches the server and is answered with a deadline in the
    future, and the server clock never passes the expiry of a key whose monitor still runs ("holders keep
    extending in time") — predicate [run_good] —, no two attempts hold a live lock context at the same time. *)
Theorem C34_mutex :
  forall (c : cfg) (now : Z) (ls : list label) (s : state),
    1 <= c_m c -> run c (init c now) ls = Some s -> run_good c (init c now) ls ->
    forall a b, a <> b -> live s a = true -> live s b = true -> False.
Proof. exact mutex. Qed.
Print Assumptions C34_mutex.

(** … because a live holder owns a majority of the name's keys (and two majorities of 2m-1 keys intersect). *)
Theorem C34_live_owns_majority :
  forall (c : cfg) (now : Z) (ls : list label) (s : state) (a : nat),
    run c (init c now) ls = Some s -> run_good c (init c now) ls -> live s a = true -> c_m c <= owns s a.
Proof.
  intros c now ls s a HR HG. apply live_owns_majority. exact (inv_run c ls _ _ (inv_init c now) HG HR).
Qed.
Print Assumptions C34_live_owns_majority.

(** DONE BEFORE RELEASE.
    Full statement (not provable, see the witness below): "in every reachable state of every schedule, a delete
    script of attempt a that takes a below its majority runs only when a's context is done".
    Proved, for EVERY schedule (failing round trips, forced takeovers, deletions, expiry, Close included): when a
    delete script of attempt a runs while a's context is not done, fewer than m of a's monitors have left their
    loops, the context stays live — and if all 2m-1 keys of a have been attempted, at least m monitors still run
    afterwards.  What is missing is exactly the window characterised by [a_next t < nkeys c]: [try] has returned
    with m keys and its background goroutine has not yet attempted the remaining ones
    ([C34_release_during_acquisition_witness]). *)
Theorem C34_done_before_release_partial :
  forall (c : cfg) (now : Z) (ls : list label) (s s' : state) (a i : nat) (executed : bool) (t t' : attempt),
    c_early c = true -> 1 <= c_m c ->
    run c (init c now) ls = Some s ->
    lstep c s (LDelkey a i executed) = Some s' ->
    nth_error (s_att s) a = Some t -> nth_error (s_att s') a = Some t' ->
    a_cancelled t = false ->
    a_exiting t' < c_m c /\ a_cancelled t' = false /\
    (a_next t = nkeys c -> c_m c <= count_mon MRun (a_mon t')).
Proof. intros c now ls s s' a i executed t t'. exact (done_before_release c now ls s a i executed s' t t'). Qed.
Print Assumptions C34_done_before_release_partial.

(** In the runs of the mutual-exclusion theorem the same fact in terms of keys: a release by a live holder
    leaves it live and owning a majority — a holder that releases below its majority was cancelled before. *)
Theorem C34_release_keeps_majority :
  forall (c : cfg) (now : Z) (ls : list label) (s s' : state) (a i : nat) (executed : bool),
    c_early c = true -> 1 <= c_m c ->
    run c (init c now) ls = Some s -> run_good c (init c now) ls ->
    lstep c s (LDelkey a i executed) = Some s' ->
    live s a = true -> live s' a = true /\ c_m c <= owns s' a.
Proof. intros c now ls s s' a i executed. exact (release_keeps_majority c now ls s a i executed s'). Qed.
Print Assumptions C34_release_keeps_majority.

(** S5, the original order (cancel only after the delete script): a holder of all three keys whose extensions
    of keys 0 and 1 fail releases key 1 while its context is live and is left with one key of three. *)
Definition s5_schedule : list label :=
  [LStart false; LAcquire 0 100%Z true true; LAcquire 0 100%Z true true; LReturn 0; LAcquire 0 100%Z true true;
   LExtend 0 0 200%Z false true; LExtend 0 1 200%Z false true; LDelkey 0 0 true].

Theorem C34_done_before_release_unfixed_refuted :
  let c := {| c_m := 2; c_early := false |} in
  exists s s', run c (init c 0%Z) s5_schedule = Some s /\ lstep c s (LDelkey 0 1 true) = Some s' /\
               live s 0 = true /\ owns s' 0 = 1 /\ live s' 0 = false.
Proof. cbv zeta. eexists; eexists. vm_compute. repeat split; reflexivity. Qed.
Print Assumptions C34_done_before_release_unfixed_refuted.

(** the same schedule on the repaired order: the context is done before that release *)
Example C34_s5_repaired :
  let c := {| c_m := 2; c_early := true |} in
  exists s, run c (init c 0%Z) s5_schedule = Some s /\ live s 0 = false /\ owns s 0 = 2.
Proof. cbv zeta. eexists. vm_compute. repeat split; reflexivity. Qed.

(** both kinds of exit count ([a_exiting] covers monitors that left with ErrNotLocked as well as those that go on to
    their delete script): key 0 is deleted by somebody else and its monitor learns it (extension answered 0), then
    the extension of key 1 fails — the context is done before the delete script of key 1 *)
Example C34_two_step_cancel_first :
  let c := {| c_m := 2; c_early := true |} in
  exists s s', run c (init c 0%Z)
                 [LStart false; LAcquire 0 100%Z true true; LAcquire 0 100%Z true true; LReturn 0; LAcquire 0 100%Z true true;
                  LEnvDel 0; LExtend 0 0 200%Z true true] = Some s /\ live s 0 = true /\
               lstep c s (LExtend 0 1 200%Z false true) = Some s' /\ live s' 0 = false /\ owns s' 0 = 2.
Proof. cbv zeta. eexists; eexists. vm_compute. repeat split; reflexivity. Qed.

(** the window that remains in the repaired order: [try] returned with keys 0 and 1, key 2 not yet attempted,
    the extension of key 0 fails and its monitor releases it: live with one key of three *)
Theorem C34_release_during_acquisition_witness :
  let c := {| c_m := 2; c_early := true |} in
  exists s s', run c (init c 0%Z)
                 [LStart false; LAcquire 0 100%Z true true; LAcquire 0 100%Z true true; LReturn 0;
                  LExtend 0 0 200%Z false true] = Some s /\
               lstep c s (LDelkey 0 0 true) = Some s' /\ live s' 0 = true /\ owns s' 0 = 1.
Proof. cbv zeta. eexists; eexists. vm_compute. repeat split; reflexivity. Qed.
Print Assumptions C34_release_during_acquisition_witness.

(** LOSS => CANCEL (partial: timers are steps that may fire, their fairness is not modelled).
    In every reachable state of every schedule, for a holder whose keys have all been attempted and whose
    context is not done: (1) if it owns fewer than m keys, one of its monitors still runs on a key it no longer
    owns; (2) the next extension of such a monitor — its ExtendInterval timer or the invalidation of the key —
    makes it leave, whatever the outcome of the round trip; (3) when m monitors have left, the context is done.
    So at most m extension steps of the holder's own monitors separate a loss of the majority from the cancel. *)
Theorem C34_loss_cancels_lost_monitor_partial :
  forall (c : cfg) (now : Z) (ls : list label) (s : state) (a : nat) (t : attempt),
    c_early c = true -> 1 <= c_m c -> run c (init c now) ls = Some s ->
    nth_error (s_att s) a = Some t -> a_cancelled t = false -> a_next t = nkeys c -> owns s a < c_m c ->
    exists i k, nth_error (a_mon t) i = Some MRun /\ nth_error (s_keys s) i = Some k /\ is_owner a k = false.
Proof.
  intros c now ls s a t He Hm HR. apply lost_monitor_exists; [|exact He].
  exact (acc_run c Hm ls _ _ (acc_init c now) HR).
Qed.
Print Assumptions C34_loss_cancels_lost_monitor_partial.

Theorem C34_loss_cancels_monitor_leaves_partial :
  forall (c : cfg) (s : state) (a : nat) (t : attempt) (i : nat) (k : option (nat * Z)) (exp : Z) (executed replied : bool),
    nth_error (s_att s) a = Some t -> nth_error (a_mon t) i = Some MRun ->
    nth_error (s_keys s) i = Some k -> is_owner a k = false ->
    exists s' t', lstep c s (LExtend a i exp executed replied) = Some s' /\
                  nth_error (s_att s') a = Some t' /\ a_exiting t' = S (a_exiting t) /\
                  (a_cancelled t = true -> a_cancelled t' = true) /\ a_next t' = a_next t.
Proof. exact lost_monitor_leaves. Qed.
Print Assumptions C34_loss_cancels_monitor_leaves_partial.

Theorem C34_loss_cancels_majority_left_partial :
  forall (c : cfg) (now : Z) (ls : list label) (s : state) (a : nat) (t : attempt),
    c_early c = true -> 1 <= c_m c -> run c (init c now) ls = Some s ->
    nth_error (s_att s) a = Some t -> c_m c <= a_exiting t -> a_cancelled t = true.
Proof. exact majority_left_cancelled. Qed.
Print Assumptions C34_loss_cancels_majority_left_partial.

(** WAITER WAKE-UP (partial: one WithContext waiter per locker; several waiters share the gate channel and hand
    the token on at release, which is observed by the tie only).  In every reachable state of the gate: if the
    waiter is blocked after failing on key i and key i has been written since, then once the invalidations on
    their way are delivered the gate holds a token and the waiter's wake-up is enabled: no wake-up is lost. *)
Theorem C34_waiter_wakeup_partial :
  forall (n : nat) (ls : list glabel) (g : gate) (i : nat),
    grun (ginit n) ls = Some g -> g_wait g = WBlocked i -> nth_error (g_tracked g) i = Some false ->
    exists g', grun g (delivers (length (g_inflight g))) = Some g' /\ g_wait g' = WBlocked i /\ g_token g' = true /\
               exists g'', gstep g' GWake = Some g'' /\ g_wait g'' = WTrying.
Proof. exact waiter_wakeup. Qed.
Print Assumptions C34_waiter_wakeup_partial.

(** ---- non-vacuity ---- *)

(** a run that satisfies [run_good]: attempt 0 takes the lock (majority 2 of 3), extends, the clock advances
    within the deadlines, attempt 1 fails on key 0, attempt 0 unlocks and releases, attempt 2 gets the lock *)
Definition good_schedule : list label :=
  [LStart false; LAcquire 0 100%Z true true; LAcquire 0 100%Z true true; LReturn 0; LAcquire 0 100%Z true true;
   LTick 40%Z; LExtend 0 0 140%Z true true; LExtend 0 1 140%Z true true; LExtend 0 2 140%Z true true;
   LStart false; LAcquire 1 150%Z true true; LReturn 1; LReturn 1;
   LCancel 0; LDelkey 0 0 true; LDelkey 0 1 true; LDelkey 0 2 true;
   LStart false; LAcquire 2 160%Z true true; LAcquire 2 160%Z true true; LReturn 2].

Example C34_nonvacuous_run :
  let c := {| c_m := 2; c_early := true |} in
  exists s, run c (init c 0%Z) good_schedule = Some s /\
            live s 0 = false /\ live s 1 = false /\ live s 2 = true /\ owns s 2 = 2.
Proof. cbv zeta. eexists. vm_compute. repeat split; reflexivity. Qed.

Example C34_nonvacuous_good : run_good {| c_m := 2; c_early := true |} (init {| c_m := 2; c_early := true |} 0%Z) good_schedule.
Proof.
  unfold good_schedule.
  repeat (cbn [run_good]; split; [first [reflexivity | exact I | (cbn; lia) | (cbn; repeat split; (reflexivity || lia)) | idtac]|];
          try (vm_compute lstep; cbv beta iota)).
  all: try exact I.
  (* the tick: the three keys of attempt 0 expire at 100, the clock goes from 0 to 40 *)
  all: intros i a e t Hk Ha Hm;
       destruct i as [|[|[|i]]]; cbn in Hk; try (destruct i; discriminate); injection Hk as <- <-; cbn; lia.
Qed.

(** a gate run: the waiter fails on key 0, blocks, the holder releases key 0, the invalidation is delivered,
    the waiter wakes *)
Example C34_nonvacuous_gate :
  exists g, grun (ginit 3) [GFail 0; GBlock; GWrite 0] = Some g /\ g_wait g = WBlocked 0 /\
            nth_error (g_tracked g) 0 = Some false /\ g_inflight g = [0] /\ g_token g = false.
Proof. eexists. vm_compute. repeat split; reflexivity. Qed.
