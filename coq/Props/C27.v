(** C27 — Invalidation callbacks observe exactly the server's invalidations.

    Model: the invalidation branch of [handle_push], the clean-up of [_background] and the hook swaps of
    [RV.Model.PubSub]; [mux.Store] of [RV.Model.Dedicated].  [st_handled s] is the sequence of frames the reader
    has taken off the wire (the server's pushes in wire order, C26_wire_order); [invals] keeps the key lists of the
    invalidate pushes among them ([None] = a flush, delivered as nil).  All schedules, as in C26. *)
From Coq Require Import String List Arith NArith ZArith Bool.
Require Import RV.Model.Base RV.Model.PsBase RV.Model.PubSub RV.Model.Dedicated
               RV.Proofs.PubSubHookProofs RV.Proofs.DedicatedProofs.
Import ListNotations.
Open Scope N_scope.
Open Scope list_scope.

(** ClientOption.OnInvalidations: called with exactly the key lists of the invalidation pushes handled, in wire
    order, nil for a flush, and once more with nil when the connection is lost (the clean-up ran); never when unset. *)
Theorem C27_exact : forall pm b ls s, run pm (PubSub.init b) ls = Some s ->
  st_cb s = (if b then invals (st_handled s) ++ (if st_cleaned s then [None] else []) else []).
Proof.
  intros pm b ls s H. destruct (hook_reach pm b ls s H) as [_ HC]. rewrite (ci_cb _ HC). unfold cb_spec.
  assert (Hb : st_oninval s = b).
  { apply (run_invariant pm (fun s => st_oninval s = b)) with (ls := ls) (s := PubSub.init b); auto.
    intros s0 l s1 E Hs. destruct l; cbn [step] in Hs; step_inv Hs; cbn; auto;
      try (unfold handle_push; destruct f as [? ?|? ? [?|]|? ?|?]; cbn; auto);
      try (destruct (st_cur s0); cbn; auto). }
  rewrite Hb. reflexivity.
Qed.
Print Assumptions C27_exact.

(** SetOnInvalidations on a dedicated client: the callback of a hook set is called with exactly the invalidation
    pushes handled while that hook set was the installed one, and with a final nil iff it was the installed one when
    the connection was lost. *)
Theorem C27_exact_hooks : forall pm b ls s, run pm (PubSub.init b) ls = Some s ->
  forall h, In h (st_hooks s) -> hook_inval_log s (hk_id h) = hook_inval_spec s h.
Proof. intros pm b ls s H h Hin. destruct (hook_reach pm b ls s H) as [_ HC]. apply (ci_hooks _ HC). exact Hin. Qed.
Print Assumptions C27_exact_hooks.

(** both callbacks on one connection: with ClientOption.OnInvalidations set AND a hook set with an invalidation callback
    installed on the same connection (SetOnInvalidations on a dedicated client), every invalidate push — single key,
    several keys, flush — is delivered to BOTH: the hook's callback does not replace the client-wide one.  Step level:
    handling one push appends its keys to the client-wide log and to the installed hook's log.  Run level: in every
    reachable state the client-wide log is exactly the pushes handled on the connection (+ nil once it is lost) while each
    hook set's log is exactly the pushes handled while it was installed (+ nil iff installed at the loss). *)
Theorem C27_exact_both_callbacks :
  (forall s keys h, st_oninval s = true -> cur_hook s = Some h -> hk_inval h = true ->
     st_cb (handle_push s (FInval keys)) = st_cb s ++ [keys] /\
     st_hinval (handle_push s (FInval keys)) = st_hinval s ++ [(hk_id h, keys)]) /\
  (forall pm ls s, run pm (PubSub.init true) ls = Some s ->
     st_cb s = invals (st_handled s) ++ (if st_cleaned s then [None] else []) /\
     forall h, In h (st_hooks s) -> hook_inval_log s (hk_id h) = hook_inval_spec s h).
Proof.
  split.
  - intros s keys h Ho Hc Hi. unfold handle_push, cur_hook in *. cbn [st_oninval st_cur st_hooks st_cb st_hinval]. rewrite Ho, Hc, Hi. split; reflexivity.
  - intros pm ls s H. split; [exact (C27_exact pm true ls s H)|exact (C27_exact_hooks pm true ls s H)].
Qed.
Print Assumptions C27_exact_both_callbacks.

(** releasing a dedicated client that installed an invalidation callback: CLIENT TRACKING OFF is sent by the
    releasing client on its wire, tracking is off, and only then is the wire released / idle *)
Theorem C27_tracking_off : forall s d c x,
  find_dc d (d_clients s) = Some c -> dc_mark c = false -> find_wire (dc_wire c) (d_wires s) = Some x ->
  w_inval x = true -> w_dead x = false -> w_blocked x = false ->
  exists s', dstep s (DRelease d) = Some s' /\
    d_log s' = d_log s ++ (if w_bg x then [EvCmd (w_id x) (HDed d) (WUnsub (w_v7 x))] else []) ++
                          [EvCmd (w_id x) (HDed d) WTrackingOff; EvRel (w_id x) (HDed d) true] /\
    exists x', find_wire (dc_wire c) (d_wires s') = Some x' /\ w_tracking x' = false /\ w_inval x' = false /\ w_holder x' = None.
Proof.
  intros s d c x F M Fx Hi Hd Hb. destruct (cleanup s d c x F M Fx) as [s' [A [B [C _]]]].
  exists s'. split; [exact A|]. destruct (cleanup_spelled x (HDed d)) as [P1 [P2 [P3 [P4 _]]]].
  destruct (P4 Hd Hb) as [E [_ T]]. split.
  - rewrite B, E, Hi. reflexivity.
  - exists (stored_wire x). repeat split; auto.
Qed.
Print Assumptions C27_tracking_off.

(** non-vacuity: pushes, a flush, hook sets replacing each other, the connection lost *)
Example C27_nonvacuous :
  let s := drive pm_simple (PubSub.init true)
             [OInval (Some [bs "k1"]); OSetHooks 1 true; OInval (Some [bs "k1"; bs "k2"]); OInval None; OSetHooks 2 true;
              OInval (Some [bs "k3"]); OClose EConn]%string in
  st_cb s = [Some [bs "k1"]; Some [bs "k1"; bs "k2"]; None; Some [bs "k3"]; None]%string /\
  hook_inval_log s 1 = [Some [bs "k1"; bs "k2"]; None]%string /\
  hook_inval_log s 2 = [Some [bs "k3"]; None]%string /\
  map (fun h => (hk_id h, hk_closed h, hk_err h)) (st_hooks s) = [(1, 1%nat, []); (2, 1%nat, [EConn])].
Proof. vm_compute. repeat split. Qed.
