(** C10 — Client-side cache memory stays within CacheSizeEachConn.

    Model: RV.Model.Lru (lru.go as repaired by the `fix:` commit recorded in known_findings.d/lru.json:
    the eviction walk takes the successor before removing an element).  A history is any list of
    operations of the store, including the individual critical sections of Flight / Flights, so every
    lock-granular interleaving of concurrent callers is a history.

    Hypotheses: [0 <= cmax] (rueidis.go replaces a non-positive CacheSizeEachConn by the default),
    [0 <= cbase], [0 <= cmss] (entryBaseSize and messageStructSize are unsafe.Sizeof sums), and
    [wf_op]: a reply handed to Update is a real message (type byte <> 0), as every message produced
    by the RESP reader is.

    After Close the store and list are dropped and [size] is left untouched by the code (it is never
    read again); the accounting equation is therefore stated for an open store, the bound on the
    retained entries for every state. *)
From Coq Require Import List NArith ZArith Bool.
Require Import RV.Model.Base RV.Model.Lru RV.Proofs.LruBase RV.Proofs.LruSteps RV.Proofs.LruC10.
Import ListNotations.
Open Scope Z_scope.

(** The accounted size equals the sum of the sizes of the completed entries actually retained, and
    that sum never exceeds the limit — after every operation of every history. *)
Theorem C10_inv : forall g ops,
  0 <= cmax g -> 0 <= cbase g -> 0 <= cmss g -> Forall wf_op ops ->
  let s := run g ops init in
  (closed s = false -> size s = sum_done (order s)) /\ sum_done (order s) <= cmax g.
Proof. exact size_invariant. Qed.
Print Assumptions C10_inv.

(** Update evicts least-recently-used completed entries first: with [s1] the store as Update leaves it
    before the walk (reply committed, size added), the list splits as [l1 ++ l2] such that exactly the
    completed entries of the prefix [l1] are removed (pending ones of [l1] stay in place), the size was
    above the limit when each element of [l1] was visited (so no shorter prefix would do), and the walk
    stops as soon as the size fits or the list is exhausted. *)
Theorem C10_lru_first : forall g ops k c v s1,
  pre_evict g (run g ops init) k c v = Some s1 ->
  let s' := fst (step g (run g ops init) (Update k c v)) in
  exists l1 l2, order s1 = l1 ++ l2 /\
    order s' = filter pending l1 ++ l2 /\
    size s' = size s1 - sum_sizes (filter done l1) /\
    (forall a e b, l1 = a ++ e :: b -> cmax g < size s1 - sum_sizes (filter done a)) /\
    (size s' <= cmax g \/ l2 = []).
Proof. intros g ops k c v s1 H. exact (update_lru_first g _ k c v s1 H). Qed.
Print Assumptions C10_lru_first.

(** In-flight entries are never evicted: a pending entry leaves the store only through the Update or
    Cancel of its own command, or Close. *)
Theorem C10_pending_never_evicted : forall g ops o e,
  Forall wf_op ops ->
  let s := run g ops init in
  In e (order s) -> pending e = true -> ~ resolves (ekey e) (ecmd e) o ->
  In e (order (fst (step g s o))).
Proof.
  intros g ops o e Hw s He Hp Hr. apply pending_survives; try assumption.
  apply inv_run; [exact Hw|apply inv_init].
Qed.
Print Assumptions C10_pending_never_evicted.

(** non-vacuity: max = 10 x entryMinSize; two replies of 1384 bytes, then one of 2884 bytes whose
    insertion needs two evictions (5652 -> 4268 -> 2884); a pending entry in front is skipped *)
Definition ex_g := mkCfg 3760 336 40.
Definition ex_k (n : N) : bytes := [n].
Definition ex_v (n : N) : msg := Msg 36 0 (pad [] n) [] 0 true.
Definition ex_ops : list op :=
  [Flight (ex_k 0) (ex_k 71) 1000000000 0;      (* stays pending, oldest *)
   Flight (ex_k 1) (ex_k 71) 1000000000 0; Flight (ex_k 2) (ex_k 71) 1000000000 0; Flight (ex_k 3) (ex_k 71) 1000000000 0;
   Update (ex_k 1) (ex_k 71) (ex_v 1004); Update (ex_k 2) (ex_k 71) (ex_v 1004)].

Example C10_nonvacuous :
  Forall wf_op (ex_ops ++ [Update (ex_k 3) (ex_k 71) (ex_v 2504)]) /\
  size (run ex_g ex_ops init) = 2768 /\
  map eid (order (run ex_g ex_ops init)) = [0; 1; 2; 3]%N /\
  (exists s1, pre_evict ex_g (run ex_g ex_ops init) (ex_k 3) (ex_k 71) (ex_v 2504) = Some s1 /\ size s1 = 5652) /\
  let s' := run ex_g (ex_ops ++ [Update (ex_k 3) (ex_k 71) (ex_v 2504)]) init in
  size s' = 2884 /\ map eid (order s') = [0; 3]%N /\ map pending (order s') = [true; false].
Proof.
  split; [repeat constructor; discriminate|].
  split; [vm_compute; reflexivity|]. split; [vm_compute; reflexivity|].
  split; [eexists; split; [vm_compute; reflexivity|vm_compute; reflexivity]|].
  vm_compute. repeat split; reflexivity.
Qed.
