(** C09 — Concurrent cache misses on one connection share one request (store level: lru.go).

    A history is any list of store operations, including the separate critical sections of
    Flight / Flights, so the theorems cover every lock-granular interleaving of concurrent callers.
    [answers k c o x] are the answers operation [o] (with output [x]) gave to lookups of command
    (k, c): [AHit v] (served from the cache), [AWait id] (wait on the in-flight entry [id]) or
    [AMiss] (the caller must send the request).  [resolves k c o] = [o] is Update / Cancel of (k, c)
    or Close.  [released x] = the entries whose waiters operation output [x] wakes.
    The caller side (which Cancel follows which failure in DoCache / DoMultiCache) belongs to the
    pipe-level model of another builder. *)
From Coq Require Import List NArith ZArith Bool.
Require Import RV.Model.Base RV.Model.Lru RV.Model.Adapter RV.Proofs.LruBase RV.Proofs.LruSteps RV.Proofs.LruAnswers
               RV.Proofs.LruHist RV.Proofs.LruC09 RV.Proofs.AdapterProofs.
Import ListNotations.
Open Scope Z_scope.

Lemma pending_survives_run g ops : forall s e,
  Forall wf_op ops -> inv s -> In e (order s) -> pending e = true ->
  Forall (fun o => ~ resolves (ekey e) (ecmd e) o) ops -> In e (order (run g ops s)).
Proof.
  induction ops as [|o r IH]; intros s e Hw Hi He Hp Hr; [exact He|].
  inversion Hw; subst. inversion Hr; subst. rewrite run_cons. apply IH; try assumption.
  - apply inv_step; assumption.
  - apply pending_survives; assumption.
Qed.

(** Between the Flight that returns Miss for (k, c) on an open store and the next Update / Cancel of
    (k, c) or Close, every lookup of (k, c) — by Flight, by a batch of Flights, by any of their critical
    sections, whatever else happens to other commands in between — is answered "wait on that very
    flight"; in particular no second Miss, hence no second request. *)
Theorem C09_single_miss : forall g pre k c ttl now v mid o a,
  Forall wf_op (pre ++ Flight k c ttl now :: mid) ->
  closed (run g pre init) = false ->
  snd (step g (run g pre init) (Flight k c ttl now)) = OFlight v None ->
  Forall (fun o' => ~ resolves k c o') mid ->
  In a (answers k c o (snd (step g (run g (pre ++ Flight k c ttl now :: mid) init) o))) ->
  a = AWait (next_id (run g pre init)).
Proof.
  intros g pre k c ttl now v mid o a Hw Hc Hm Hr Ha.
  apply Forall_app in Hw. destruct Hw as [Hwp Hwm]. inversion Hwm as [|? ? Hwf Hwmid]; subst.
  pose proof (inv_run g pre init Hwp inv_init) as Hi.
  destruct (flight_miss_creates _ k c ttl now v Hi Hc Hm) as [e' [A [B [C [_ [D _]]]]]].
  rewrite run_app, run_cons in Ha. cbn [step] in Ha.
  set (s1 := fst (flight (run g pre init) k c ttl now)) in *.
  assert (Hi1 : inv s1) by (apply inv_flight; exact Hi).
  unfold kc in B. injection B as <- <-.
  pose proof (pending_survives_run g mid s1 e' Hwmid Hi1 A C Hr) as He.
  rewrite <- D. eapply step_wait; [apply inv_run; eassumption|exact He|exact C|exact Ha].
Qed.
Print Assumptions C09_single_miss.

(** Every Wait or Miss answer (on an open store) names an entry that is in flight in the resulting
    store: a waiter is never parked on an entry that nobody can resolve, and every Miss starts a flight. *)
Theorem C09_answers_are_in_flight : forall g ops o k c a,
  Forall wf_op ops -> closed (run g ops init) = false ->
  In a (answers k c o (snd (step g (run g ops init) o))) -> (forall v, a <> AHit v) ->
  exists e, In e (order (fst (step g (run g ops init) o))) /\ kc e = (k, c) /\ pending e = true /\
            (forall id, a = AWait id -> eid e = id).
Proof.
  intros g ops o k c a Hw Hc Ha Hn. apply step_flying; try assumption. apply inv_run; [exact Hw|apply inv_init].
Qed.
Print Assumptions C09_answers_are_in_flight.

(** An in-flight entry stays in the store until its own Update / Cancel or Close ... *)
Theorem C09_flight_persists : forall g ops o e,
  Forall wf_op ops -> In e (order (run g ops init)) -> pending e = true ->
  ~ resolves (ekey e) (ecmd e) o -> In e (order (fst (step g (run g ops init) o))).
Proof.
  intros g ops o e Hw He Hp Hr. apply pending_survives; try assumption. apply inv_run; [exact Hw|apply inv_init].
Qed.
Print Assumptions C09_flight_persists.

(** ... and each of the three delivers to its waiters: Update the committed value (with the expiry it
    reports), Cancel and Close the error (the [err] argument; Wait returns the entry's placeholder
    message together with it). *)
Theorem C09_waiters_get_result : forall g ops e,
  Forall wf_op ops -> In e (order (run g ops init)) -> pending e = true ->
  let s := run g ops init in
  (forall v, let px := min_xat (m_xat (eval e)) (m_xat v) in
             snd (step g s (Update (ekey e) (ecmd e) v)) = OUpdate px (Some (Rel (eid e) (set_xat v px)))) /\
  (forall err, snd (step g s (Cancel (ekey e) (ecmd e) err)) = OCancel (Some (Rel (eid e) (eval e)))) /\
  (forall err, In (eid e) (released (snd (step g s (Close err))))).
Proof.
  intros g ops e Hw He Hp s. pose proof (inv_run g ops init Hw inv_init) as Hi. fold s in Hi, He.
  assert (Hl : lookup (ekey e) (ecmd e) (order s) = Some e) by (apply lookup_unique; [apply (inv_kc s Hi)|exact He|reflexivity]).
  split; [|split].
  - intros v px. cbn [step]. apply update_reports; assumption.
  - intro err. cbn [step]. apply (cancel_releases s _ _ e Hi He eq_refl Hp).
  - intro err. cbn [step]. apply close_releases; assumption.
Qed.
Print Assumptions C09_waiters_get_result.

(** No entry is released twice in any history (the Go code closes each entry's channel exactly once). *)
Theorem C09_released_once : forall g ops,
  Forall wf_op ops -> NoDup (flat_map released (trace g ops init)).
Proof.
  intros g ops Hw.
  assert (H0 : rel_inv [] init) by (split; [constructor|split; [intros ? []|intros ? ? ? []]]).
  exact (proj1 (rel_inv_run g ops init [] Hw inv_init H0)).
Qed.
Print Assumptions C09_released_once.

(** A cancelled flight is not cached: right after the Cancel that released it, the command is absent
    and the next Flight is a Miss again (later lookups can only hit a reply committed by a later Update:
    C06_no_stale_hit). *)
Theorem C09_not_cached_after_cancel : forall g ops e err ttl now,
  Forall wf_op ops -> In e (order (run g ops init)) -> pending e = true ->
  let s' := fst (step g (run g ops init) (Cancel (ekey e) (ecmd e) err)) in
  lookup (ekey e) (ecmd e) (order s') = None /\
  snd (step g s' (Flight (ekey e) (ecmd e) ttl now)) = OFlight (pending_msg ttl now) None.
Proof.
  intros g ops e err ttl now Hw He Hp s'. pose proof (inv_run g ops init Hw inv_init) as Hi.
  pose proof (cancel_releases _ _ _ e Hi He eq_refl Hp) as [_ Hl].
  split; [exact Hl|]. cbn [step]. apply flight_after_cancel.
  - apply inv_cancel. exact Hi.
  - unfold s'. cbn [step]. rewrite cancel_spec.
    rewrite (lookup_unique _ _ _ e (inv_kc _ Hi) He eq_refl), Hp. cbn [fst closed].
    destruct (closed (run g ops init)) eqn:Hc; [rewrite (inv_closed _ Hi Hc) in He; contradiction|reflexivity].
  - exact Hl.
Qed.
Print Assumptions C09_not_cached_after_cancel.

(** ** NewSimpleCacheAdapter (cache.go), any history incl. its two critical sections and arbitrary
    evictions of the underlying SimpleCache *)

(** a Miss on an open adapter starts a flight ... *)
Theorem C09_adapter_miss_starts_flight : forall ops k c ttl now,
  let s := arun ops ainit in
  aflights s <> None -> snd (astep s (AFlight k c ttl now)) = AOFlight empty_msg None ->
  a_pending (fst (astep s (AFlight k c ttl now))) k c (mkAE (anext s) (unix_milli (now + ttl))).
Proof. intros ops k c ttl now s. apply a_miss_starts_flight. Qed.
Print Assumptions C09_adapter_miss_starts_flight.

(** ... which stays until its own Update / Cancel or Close; meanwhile no lookup of the command is told to
    send a request: it waits on that flight (or is served a live value of the SimpleCache) ... *)
Theorem C09_adapter_single_flight : forall ops mid o k c ae a,
  a_pending (arun ops ainit) k c ae ->
  Forall (fun o' => ~ a_resolves k c o') mid ->
  In a (a_answers k c o (snd (astep (arun (ops ++ mid) ainit) o))) ->
  a = AWait (aid ae) \/ exists v, a = AHit v.
Proof.
  intros ops mid o k c ae a Hp Hr Ha.
  assert (H : a_pending (arun (ops ++ mid) ainit) k c ae).
  { clear Ha. revert ops Hp. induction mid as [|m mid IH]; intros ops Hp; [rewrite app_nil_r; exact Hp|].
    inversion Hr; subst. replace (ops ++ m :: mid) with ((ops ++ [m]) ++ mid) by (rewrite <- app_assoc; reflexivity).
    apply IH; [assumption|]. rewrite arun_snoc. apply a_flight_persists; [apply ainv_run|exact Hp|assumption]. }
  eapply a_single_flight; eassumption.
Qed.
Print Assumptions C09_adapter_single_flight.

(** ... and Update / Cancel / Close deliver the value resp. the error to its waiters; Cancel leaves the
    SimpleCache untouched (nothing is cached for the failed request). *)
Theorem C09_adapter_waiters_get_result : forall ops k c ae,
  let s := arun ops ainit in
  a_pending s k c ae ->
  (forall v, exists px v', snd (astep s (AUpdate k c v)) = AOUpdate px (Some (Rel (aid ae) v')) /\
                           (v' = v \/ v' = set_xat v (trunc56 (axat ae)))) /\
  (forall err, snd (astep s (ACancel k c err)) = AOCancel (Some (aid ae)) /\
               astore (fst (astep s (ACancel k c err))) = astore s) /\
  (forall err, In (aid ae) (a_released (snd (astep s (AClose err))))).
Proof. intros ops k c ae s. apply a_waiters_get_result. Qed.
Print Assumptions C09_adapter_waiters_get_result.

(** non-vacuity: a miss, two waiters (one through Flights), an unrelated update, then Update / Cancel *)
Definition ex_g := mkCfg 3760 336 40.
Definition kA : bytes := [97%N]. Definition kB : bytes := [98%N]. Definition cG : bytes := [71%N].
Definition ex_pre : list op := [Flight kB cG 1000000 0; Update kB cG (Msg 36 0 [1%N] [] 0 true)].
Definition ex_mid : list op := [Flight kB cG 5 5; Delete (Some [kA]); Delete None; Flights 7 [FI kA cG 9; FI kB cG 9]].

Example C09_nonvacuous :
  closed (run ex_g ex_pre init) = false /\
  snd (step ex_g (run ex_g ex_pre init) (Flight kA cG 1000000 0)) = OFlight (pending_msg 1000000 0) None /\
  Forall (fun o' => ~ resolves kA cG o') ex_mid /\
  answers kA cG (Flights 9 [FI kA cG 1; FI kA cG 2])
          (snd (step ex_g (run ex_g (ex_pre ++ Flight kA cG 1000000 0 :: ex_mid) init) (Flights 9 [FI kA cG 1; FI kA cG 2])))
    = [AWait 1%N; AWait 1%N] /\
  next_id (run ex_g ex_pre init) = 1%N /\
  snd (step ex_g (run ex_g (ex_pre ++ Flight kA cG 1000000 0 :: ex_mid) init) (Cancel kA cG 7))
    = OCancel (Some (Rel 1%N (pending_msg 1000000 0))).
Proof.
  split; [reflexivity|]. split; [vm_compute; reflexivity|].
  split; [repeat constructor; cbn; try tauto; intros [H _]; discriminate|].
  split; [vm_compute; reflexivity|]. split; vm_compute; reflexivity.
Qed.
