(** C35 — Bloom filters never report a false negative.

    For every [size > 0] and [k >= 1] (the side condition "every configuration NewBloomFilter accepts
    yields such values" concerns float code that is not modelled; the observer checks it on a grid of
    (n, rate) on every run — DESIGN D9 was a violation of exactly that side condition, repaired in the
    repository), every hash function, every starting state of the server keys and every history:
    an item added by Add/AddMulti is reported present by Exists/ExistsMulti as long as no Reset/Delete
    follows the add; ExistsMulti answers per input key, in order; Count never decreases except through
    Reset/Delete.  The scripts the model transcribes are pinned byte for byte. *)
From Coq Require Import List NArith Bool.
Require Import RV.Model.Base RV.Model.Bloom RV.Proofs.BloomProofs RV.Model.ScriptTexts RV.Gen.Scripts.
Import ListNotations.
Open Scope N_scope.

(** ExistsMulti (hence Exists) = per key, in order, "all k bits of the key are set" — never a panic. *)
Theorem C35_exists_positional : forall (K : Type) (hash : K -> N * N) (size k : N),
  1 <= k -> 0 < size -> forall (f : filter) (qs : list K),
  step K hash size k f (OExists qs) = (f, VBools (Ok (map (member K hash size k f) qs))).
Proof. exact exists_positional. Qed.
Print Assumptions C35_exists_positional.

(** No false negative: whatever happened before ([f0], [pre]), after [OAdd keys] with [x] among the
    keys and any later operations other than Reset/Delete, every query list [qs] is answered with
    [true] at every position that holds [x] (and with one answer per position). *)
Theorem C35_no_false_negative : forall (K : Type) (hash : K -> N * N) (size k : N),
  1 <= k -> 0 < size ->
  forall (f0 : filter) (pre : list (op K)) (keys : list K) (post : list (op K)) (x : K) (qs : list K),
  In x keys -> forallb (fun o => negb (destructive K o)) post = true ->
  exists bs, snd (step K hash size k (final K hash size k f0 (pre ++ OAdd keys :: post)) (OExists qs)) = VBools (Ok bs)
    /\ length bs = length qs
    /\ forall i, nth_error qs i = Some x -> nth_error bs i = Some true.
Proof.
  intros K hash size k Hk Hs f0 pre keys post x qs Hin Hnd.
  set (f := final K hash size k f0 (pre ++ OAdd keys :: post)).
  exists (map (member K hash size k f) qs). rewrite (exists_positional K hash size k Hk Hs). cbn [snd].
  split; [reflexivity|]. split; [apply map_length|].
  intros i Hi. rewrite nth_error_map, Hi. cbn [option_map]. f_equal.
  apply (no_false_negative K hash size k Hk Hs). exact Hin. exact Hnd.
Qed.
Print Assumptions C35_no_false_negative.

(** Count (the value of the counter key; 0 when missing) never decreases without Reset/Delete. *)
Theorem C35_count_monotone : forall (K : Type) (hash : K -> N * N) (size k : N),
  1 <= k -> 0 < size -> forall (ops : list (op K)) (f : filter),
  forallb (fun o => negb (destructive K o)) ops = true ->
  count f <= count (final K hash size k f ops).
Proof. exact count_monotone. Qed.
Print Assumptions C35_count_monotone.

(** Every index the client sends is a valid bit offset of a [size]-bit map. *)
Theorem C35_index_in_range : forall (size : N), 0 < size -> forall h1 h2 i, index size h1 h2 i < size.
Proof. intros size Hs h1 h2 i. unfold index. apply N.mod_lt. intro E. rewrite E in Hs. discriminate. Qed.
Print Assumptions C35_index_in_range.

(** No operation of the model panics when the configuration is sane. *)
Theorem C35_no_panic : forall (K : Type) (hash : K -> N * N) (size k : N),
  1 <= k -> 0 < size -> forall f o, snd (step K hash size k f o) <> VPanic.
Proof. exact step_no_panic. Qed.
Print Assumptions C35_no_panic.

(** What k = 0 (accepted by the unrepaired sizing code, DESIGN D9) means: nothing is ever found. *)
Theorem C35_k0_characterised : forall (K : Type) (hash : K -> N * N) (size : N) (f : filter) (q : K) (qs : list K),
  0 < size -> snd (step K hash size 0 f (OExists (q :: qs))) = VBools (Ok (false :: map (fun _ => false) qs)).
Proof.
  intros K hash size f q qs Hs. cbn [step]. unfold indexes.
  assert (size =? 0 = false) as -> by (apply N.eqb_neq; intro E; rewrite E in Hs; discriminate).
  cbn [andb negb N.eqb snd].
  assert (forall l, flat_map (indexes_of K hash size 0) l = []) as ->.
  { induction l as [|y l IH]; [reflexivity|]. cbn [flat_map]. rewrite IH.
    unfold indexes_of. destruct (hash y). reflexivity. }
  unfold exists_script. cbn [exists_loop fill_results length repeat_n]. f_equal. f_equal. f_equal.
  induction qs as [|y l IH]; [reflexivity|]. cbn [length repeat_n map]. f_equal. exact IH.
Qed.
Print Assumptions C35_k0_characterised.

(** The script texts of the repository are the ones the model was written against. *)
Theorem C35_scripts_pinned :
  rueidisprob_bloomFilterAddMultiScript = pin_rueidisprob_bloomFilterAddMultiScript /\
  rueidisprob_bloomFilterExistsMultiScript = pin_rueidisprob_bloomFilterExistsMultiScript /\
  rueidisprob_bloomFilterExistsMultiReadOnlyScript = pin_rueidisprob_bloomFilterExistsMultiReadOnlyScript /\
  rueidisprob_bloomFilterResetScript = pin_rueidisprob_bloomFilterResetScript /\
  rueidisprob_bloomFilterDeleteScript = pin_rueidisprob_bloomFilterDeleteScript.
Proof. repeat split; vm_compute; reflexivity. Qed.
Print Assumptions C35_scripts_pinned.

(** non-vacuity: a 1021-bit filter with k = 3, wrap-around in the index computation, a colliding key *)
Example C35_nonvacuous :
  let hash := fun x : N => (x * 0xfffffffffffffff1 mod 2 ^ 64, x * 7 + 0x8000000000000001) in
  let f := final N hash 1021 3 empty_filter [OAdd [1; 2]; OExists [9]; OCount; OAdd [5]] in
  snd (step N hash 1021 3 f (OExists [2; 77; 1; 5])) = VBools (Ok [true; false; true; true])
  /\ count f = 3.
Proof. vm_compute. split; reflexivity. Qed.
