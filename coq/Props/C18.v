(** C18 — Key slots follow the Redis Cluster hash-slot specification.

    "The slot of every built command equals CRC16-XMODEM of its key's hash tag (the text between the
    first '{' and the next '}', when non-empty, otherwise the whole key) modulo 16384.  Commands whose
    keys fall in different slots are rejected when built by a cluster client and accepted by
    non-cluster builders."

    [crc16tab] is regenerated from internal/cmds/slot.go on every run (Gen/Crc16Tab.v) and
    [C18_table] is re-proved on it by the kernel; everything else is proved once, for all byte strings
    and all sequences of key-carrying builder calls.  Bytes are [N] below 256. *)
From Coq Require Import String.
From Coq Require Import List Arith NArith Bool.
Require Import RV.Model.Base RV.Model.Slot RV.Gen.Crc16Tab RV.Model.SlotGen.
Require Import RV.Proofs.SlotProofs RV.Proofs.SlotGenProofs.
Import ListNotations.
Open Scope N_scope.

Definition is_bytes (k : bytes) : Prop := Forall (fun b => b < 256) k.

(** every entry of the table in slot.go is the bit-by-bit CRC16-XMODEM of its index *)
Theorem C18_table : length crc16tab = 256%nat /\
  forall i, i < 256 -> nth (N.to_nat i) crc16tab 0 = crc16_bitwise [i].
Proof.
  split; [reflexivity|].
  intros i Hi. rewrite crc16_bitwise_single. apply gen_table_ok, Hi.
Qed.
Print Assumptions C18_table.

(** the table-driven loop of crc16() computes CRC16-XMODEM of any byte string *)
Theorem C18_crc : forall bs, is_bytes bs -> crc16_tab crc16tab bs = crc16_bitwise bs.
Proof. exact (crc16_tab_bitwise crc16tab gen_table_ok). Qed.
Print Assumptions C18_crc.

(** hash tag law, for the loops of slot(): first '{', next '}', non-empty ... *)
Theorem C18_hashtag_tagged : forall pre tag post,
  ~ In 123 pre -> ~ In 125 tag -> tag <> [] ->
  hashtag (pre ++ 123 :: tag ++ 125 :: post) = tag.
Proof. intros. rewrite hashtag_eq_spec. now apply hashtag_spec_tagged. Qed.
Print Assumptions C18_hashtag_tagged.

(** ... otherwise the whole key (no '{', or no '}' after the first '{', or nothing between them) *)
Theorem C18_hashtag_whole : forall k,
  (forall pre tag post, k = pre ++ 123 :: tag ++ 125 :: post -> ~ In 123 pre -> ~ In 125 tag -> tag = []) ->
  hashtag k = k.
Proof. intros. rewrite hashtag_eq_spec. now apply hashtag_spec_whole. Qed.
Print Assumptions C18_hashtag_whole.

(** cmds.Slot(k) = CRC16-XMODEM(hash tag of k) mod 16384, for every byte string *)
Theorem C18_slot : forall k, is_bytes k ->
  slot crc16tab k = crc16_bitwise (hashtag_spec k) mod 16384.
Proof. exact (slot_eq_spec crc16tab gen_table_ok). Qed.
Print Assumptions C18_slot.

(** Cluster builders (NewBuilder(InitSlot)): for every sequence of key-carrying builder calls
    (single-key parameters and variadic key parameters in any mix), building panics exactly when two
    keys are in different slots ... *)
Theorem C18_cross_slot_rejected : forall es,
  ks_run crc16tab InitSlot es = Panic <-> ~ same_slot crc16tab (all_keys es).
Proof.
  intros es. destruct (cluster_build crc16tab es) as [A B]. split; [|exact B].
  intros HP S. rewrite (A S) in HP. discriminate.
Qed.
Print Assumptions C18_cross_slot_rejected.

(** ... and otherwise succeeds with Slot() = the CRC16-XMODEM slot of every one of its keys. *)
Theorem C18_cross_slot_accepted : forall es,
  same_slot crc16tab (all_keys es) ->
  exists s, ks_run crc16tab InitSlot es = Ok s /\
            (all_keys es = [] -> s = InitSlot) /\
            (forall k, In k (all_keys es) -> is_bytes k -> s = slot_spec k).
Proof.
  intros es S. destruct (cluster_build crc16tab es) as [A _]. specialize (A S).
  exists (match all_keys es with [] => InitSlot | k :: _ => slot crc16tab k end).
  split; [exact A|]. split.
  - intros E. now rewrite E.
  - intros k Hk Hb. rewrite <- (slot_eq_spec crc16tab gen_table_ok k Hb).
    unfold same_slot in S.
    destruct (all_keys es) as [|k0 l]; [destruct Hk|].
    apply S; [now left|exact Hk].
Qed.
Print Assumptions C18_cross_slot_accepted.

(** Non-cluster builders (NewBuilder(NoSlot)) accept every key combination; Slot() carries the NoSlot
    mark and the slot of the first key of the last key-carrying call. *)
Theorem C18_noslot_builder_accepts : forall es,
  ks_run crc16tab NoSlot es =
  Ok (match deciding_key es None with None => NoSlot | Some k => N.lor NoSlot (slot crc16tab k) end).
Proof. exact (noslot_build crc16tab). Qed.
Print Assumptions C18_noslot_builder_accepts.

Theorem C18_noslot_slot_value : forall es k, deciding_key es None = Some k -> is_bytes k ->
  ks_run crc16tab NoSlot es = Ok (N.lor NoSlot (slot_spec k)).
Proof.
  intros es k Hd Hb. rewrite C18_noslot_builder_accepts, Hd.
  now rewrite (slot_eq_spec crc16tab gen_table_ok k Hb).
Qed.
Print Assumptions C18_noslot_slot_value.

(** non-vacuity: the standard check value; tagged keys share a slot and build; untagged ones are
    rejected by the cluster builder and accepted by the plain one *)
Example C18_nonvacuous_crc : crc16_bitwise (h "313233343536373839"%string) = 0x31C3
  /\ slot crc16tab (h "7b757365727d3a31"%string) = slot crc16tab (h "757365727b757365727d"%string)
  /\ slot crc16tab (h "666f6f"%string) = 12182.
Proof. vm_compute. repeat split. Qed.

Example C18_nonvacuous_cross :
  ks_run crc16tab InitSlot [KOne (h "7b617d31"%string); KMany [h "7b617d32"%string; h "787b617d"%string]] = Ok 15495
  /\ ks_run crc16tab InitSlot [KOne (h "61"%string); KMany [h "61"%string; h "62"%string]] = Panic
  /\ ks_run crc16tab NoSlot [KOne (h "61"%string); KMany [h "61"%string; h "62"%string]] = Ok (32768 + 15495).
Proof. vm_compute. repeat split. Qed.
