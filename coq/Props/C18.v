(** C18 — Key slots follow the Redis Cluster hash-slot specification.

    "The slot of every built command equals CRC16-XMODEM of its key's hash tag (the text between the
    first '{' and the next '}', when non-empty, otherwise the whole key) modulo 16384.  Commands whose
    keys fall in different slots are rejected when built by a cluster client and accepted by
    non-cluster builders."

    [crc16tab] is regenerated from internal/cmds/slot.go on every run (Gen/Crc16Tab.v) and
    [C18_table] is re-proved on it by the kernel; everything else is proved once, for all byte strings
    and all sequences of key-carrying builder calls.  Bytes are [N] below 256. *)
From Coq Require Import String.
From Coq Require Import List Arith NArith Bool.
Require Import RV.Model.Base RV.Model.Slot RV.Gen.Crc16Tab RV.Model.SlotGen.
Require Import RV.Proofs.SlotProofs RV.Proofs.SlotGenProofs.
Require Import RV.Model.BuilderGraph RV.Model.BuilderSem RV.Model.BuilderChecks RV.Gen.Builders.
Require Import RV.Proofs.BuilderProofs RV.Proofs.BuilderGenProofs.
Require Import RV.Model.BuilderGen. (* the observer's check_case: built (and kept consistent) with the property *)
Import ListNotations.
Open Scope N_scope.

Definition is_bytes (k : bytes) : Prop := Forall (fun b => b < 256) k.

(** every entry of the table in slot.go is the bit-by-bit CRC16-XMODEM of its index *)
Theorem C18_table : length crc16tab = 256%nat /\
  forall i, i < 256 -> nth (N.to_nat i) crc16tab 0 = crc16_bitwise [i].
Proof.
  split; [reflexivity|].
  intros i Hi. rewrite crc16_bitwise_single. apply gen_table_ok, Hi.
Qed.
Print Assumptions C18_table.

(** the table-driven loop of crc16() computes CRC16-XMODEM of any byte string *)
Theorem C18_crc : forall bs, is_bytes bs -> crc16_tab crc16tab bs = crc16_bitwise bs.
Proof. exact (crc16_tab_bitwise crc16tab gen_table_ok). Qed.
Print Assumptions C18_crc.

(** hash tag law, for the loops of slot(): first '{', next '}', non-empty ... *)
Theorem C18_hashtag_tagged : forall pre tag post,
  ~ In 123 pre -> ~ In 125 tag -> tag <> [] ->
  hashtag (pre ++ 123 :: tag ++ 125 :: post) = tag.
Proof. intros. rewrite hashtag_eq_spec. now apply hashtag_spec_tagged. Qed.
Print Assumptions C18_hashtag_tagged.

(** ... otherwise the whole key (no '{', or no '}' after the first '{', or nothing between them) *)
Theorem C18_hashtag_whole : forall k,
  (forall pre tag post, k = pre ++ 123 :: tag ++ 125 :: post -> ~ In 123 pre -> ~ In 125 tag -> tag = []) ->
  hashtag k = k.
Proof. intros. rewrite hashtag_eq_spec. now apply hashtag_spec_whole. Qed.
Print Assumptions C18_hashtag_whole.

(** cmds.Slot(k) = CRC16-XMODEM(hash tag of k) mod 16384, for every byte string *)
Theorem C18_slot : forall k, is_bytes k ->
  slot crc16tab k = crc16_bitwise (hashtag_spec k) mod 16384.
Proof. exact (slot_eq_spec crc16tab gen_table_ok). Qed.
Print Assumptions C18_slot.

(** Cluster builders (NewBuilder(InitSlot)): for every sequence of key-carrying builder calls
    (single-key parameters and variadic key parameters in any mix), building panics exactly when two
    keys are in different slots ... *)
Theorem C18_cross_slot_rejected : forall es,
  ks_run crc16tab InitSlot es = Panic <-> ~ same_slot crc16tab (all_keys es).
Proof.
  intros es. destruct (cluster_build crc16tab es) as [A B]. split; [|exact B].
  intros HP S. rewrite (A S) in HP. discriminate.
Qed.
Print Assumptions C18_cross_slot_rejected.

(** ... and otherwise succeeds with Slot() = the CRC16-XMODEM slot of every one of its keys. *)
Theorem C18_cross_slot_accepted : forall es,
  same_slot crc16tab (all_keys es) ->
  exists s, ks_run crc16tab InitSlot es = Ok s /\
            (all_keys es = [] -> s = InitSlot) /\
            (forall k, In k (all_keys es) -> is_bytes k -> s = slot_spec k).
Proof.
  intros es S. destruct (cluster_build crc16tab es) as [A _]. specialize (A S).
  exists (match all_keys es with [] => InitSlot | k :: _ => slot crc16tab k end).
  split; [exact A|]. split.
  - intros E. now rewrite E.
  - intros k Hk Hb. rewrite <- (slot_eq_spec crc16tab gen_table_ok k Hb).
    unfold same_slot in S.
    destruct (all_keys es) as [|k0 l]; [destruct Hk|].
    apply S; [now left|exact Hk].
Qed.
Print Assumptions C18_cross_slot_accepted.

(** Non-cluster builders (NewBuilder(NoSlot)) accept every key combination; Slot() carries the NoSlot
    mark and the slot of the first key of the last key-carrying call. *)
Theorem C18_noslot_builder_accepts : forall es,
  ks_run crc16tab NoSlot es =
  Ok (match deciding_key es None with None => NoSlot | Some k => N.lor NoSlot (slot crc16tab k) end).
Proof. exact (noslot_build crc16tab). Qed.
Print Assumptions C18_noslot_builder_accepts.

Theorem C18_noslot_slot_value : forall es k, deciding_key es None = Some k -> is_bytes k ->
  ks_run crc16tab NoSlot es = Ok (N.lor NoSlot (slot_spec k)).
Proof.
  intros es k Hd Hb. rewrite C18_noslot_builder_accepts, Hd.
  now rewrite (slot_eq_spec crc16tab gen_table_ok k Hb).
Qed.
Print Assumptions C18_noslot_slot_value.

(** Via the builder graph regenerated from internal/cmds/gen_*.go: every parameter of every builder method that
    the Redis command tables (hack/cmds/*.json) type as a key has a key-slot statement in that method. *)
Theorem C18_key_methods : forall nd e i,
  In nd (g_nodes builders) -> In e (n_edges nd) -> In i (e_keydecl e) ->
  exists o, In o (e_ks e) /\ ks_param o = i.
Proof.
  intros nd e i Hn He Hi. pose proof gen_graph_keys_ok as H. unfold graph_keys_ok in H.
  rewrite forallb_forall in H. specialize (H nd Hn). rewrite forallb_forall in H. specialize (H e He).
  unfold edge_keys_ok in H. rewrite forallb_forall in H. specialize (H i Hi).
  apply existsb_exists in H. destruct H as (o & Ho & Heq). apply N.eqb_eq in Heq. eauto.
Qed.
Print Assumptions C18_key_methods.

(** ... and the slot of a command built along any path of that graph is [ks_run] over the key events of its
    calls, so the three theorems above apply to every generated builder: a cluster-built path panics exactly
    on a cross-slot key and otherwise carries the slot of every key. *)
Theorem C18_built_slot : forall fe init rn r ss st,
  find_root rn roots = Some r ->
  run_path builders crc16tab fe init rn ss = Ok st ->
  exists tr, resolve builders (r_node r) ss = Some tr /\ ks_run crc16tab init (path_events tr) = Ok (b_ks st).
Proof. intros fe init rn r ss st Hr Hrun. exact (path_slot builders crc16tab fe init rn ss st r Hr Hrun). Qed.
Print Assumptions C18_built_slot.

Theorem C18_built_cluster_slot : forall fe rn r ss st,
  find_root rn roots = Some r ->
  run_path builders crc16tab fe InitSlot rn ss = Ok st ->
  exists tr, resolve builders (r_node r) ss = Some tr /\
    same_slot crc16tab (all_keys (path_events tr)) /\
    forall k, In k (all_keys (path_events tr)) -> is_bytes k -> b_ks st = slot_spec k.
Proof.
  intros fe rn r ss st Hr Hrun.
  destruct (path_slot builders crc16tab fe InitSlot rn ss st r Hr Hrun) as (tr & Hres & Hks).
  exists tr. split; [exact Hres|].
  destruct (same_slot_dec crc16tab (all_keys (path_events tr))) as [S|S].
  - split; [exact S|]. destruct (C18_cross_slot_accepted _ S) as (s & Hs & _ & Hall).
    rewrite Hks in Hs. inversion Hs; subst s. exact Hall.
  - apply C18_cross_slot_rejected in S. rewrite Hks in S. discriminate.
Qed.
Print Assumptions C18_built_cluster_slot.

Theorem C18_built_panic_is_cross_slot : forall fe rn r ss,
  find_root rn roots = Some r ->
  run_path builders crc16tab fe InitSlot rn ss = Panic ->
  exists k tr, resolve builders (r_node r) (firstn k ss) = Some tr /\ ~ same_slot crc16tab (all_keys (path_events tr)).
Proof.
  intros fe rn r ss Hr Hrun.
  destruct (path_panic builders crc16tab fe InitSlot rn ss r Hr Hrun) as (k & tr & Hres & Hp).
  exists k, tr. split; [exact Hres|]. now apply C18_cross_slot_rejected.
Qed.
Print Assumptions C18_built_panic_is_cross_slot.

(** non-vacuity: the standard check value; tagged keys share a slot and build; untagged ones are
    rejected by the cluster builder and accepted by the plain one *)
Example C18_nonvacuous_crc : crc16_bitwise (h "313233343536373839"%string) = 0x31C3
  /\ slot crc16tab (h "7b757365727d3a31"%string) = slot crc16tab (h "757365727b757365727d"%string)
  /\ slot crc16tab (h "666f6f"%string) = 12182.
Proof. vm_compute. repeat split. Qed.

Example C18_nonvacuous_cross :
  ks_run crc16tab InitSlot [KOne (h "7b617d31"%string); KMany [h "7b617d32"%string; h "787b617d"%string]] = Ok 15495
  /\ ks_run crc16tab InitSlot [KOne (h "61"%string); KMany [h "61"%string; h "62"%string]] = Panic
  /\ ks_run crc16tab NoSlot [KOne (h "61"%string); KMany [h "61"%string; h "62"%string]] = Ok (32768 + 15495).
Proof. vm_compute. repeat split. Qed.
