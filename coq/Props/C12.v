(** C12 — RESP decoding reproduces every well-formed reply.

    [decode B] runs the model of readNextMessage (Model/Resp.v: every reader of resp.go transcribed over
    the bufio operations of Model/RespIO.v) on a byte stream, through a bufio.Reader of size B.
    [rv] / [enc] / [abs] / [wf] (Model/RespSpec.v) are the specification: value trees of every RESP2 / RESP3
    type that record the encoding choice of every node (length-prefixed or streamed strings with any
    chunk split, counted or streamed aggregates, RESP3 null or any RESP2 null, attribute frames, pushes),
    the encoder, the expected message, and the side conditions of the wire format (no LF inside simple
    strings, int64 integers, payloads up to Go's 2^48-byte allocation limit).  Trees are unbounded in
    size, depth and payload; payload bytes are arbitrary.  B >= 32 is what rueidis enforces
    (ReadBufferEachConn). *)
From Coq Require Import List Arith NArith ZArith Bool.
From Coq Require Import String.
Require Import RV.Model.Base RV.Model.RespWrite RV.Model.Resp.
Require Import RV.Model.RespStream.
Require Import RV.Proofs.RespIOProofs RV.Proofs.RespRoundtrip RV.Proofs.RespC12 RV.Proofs.RespStreamC29.
Import ListNotations.
Open Scope N_scope.

(** decoding yields exactly the encoded value and leaves the following bytes untouched,
    for every value tree and every encoding choice *)
Theorem C12_roundtrip : forall (B : nat) (v : rv) (rest : bytes),
  (32 <= B)%nat -> wf v = true ->
  fst (decode B (enc v ++ rest)) = (Ok (abs v), rest).
Proof. intros B v rest HB Hwf. now apply decode_roundtrip. Qed.
Print Assumptions C12_roundtrip.

(** the same, inside the attribute loop and for any amount of fuel that is enough
    (this is the statement the induction proves; attributes seen before the value are attached to it) *)
Theorem C12_roundtrip_general : forall (B : nat) (v : rv) (fuel : nat) (attrs : option msg) (rest : bytes) (al : N),
  (32 <= B)%nat -> wf v = true -> (cost v <= fuel)%nat ->
  exists al', run B (read_next fuel attrs) (enc v ++ rest) al = (Ok (abs_with v attrs), rest, al').
Proof. intros B v fuel attrs rest al HB Hwf Hf. now apply read_next_roundtrip. Qed.
Print Assumptions C12_roundtrip_general.

(** independent of how the bytes are split across reads: for EVERY byte stream (well-formed or not) and
    every way the connection delivers it in chunks (including one byte at a time and empty reads),
    the decoder returns the same result, leaves the same unread bytes and requests the same allocations *)
Theorem C12_split_independent : forall (B : nat) (chunks : list bytes),
  decode B (List.concat chunks) =
  (fst (fst (decode_chunked B chunks)), flat (snd (fst (decode_chunked B chunks))), snd (decode_chunked B chunks)).
Proof. exact decode_split_independent. Qed.
Print Assumptions C12_split_independent.

(** … for every program over the reader operations, hence for streamTo as well *)
Theorem C12_split_independent_any_program : forall (A : Type) (B : nat) (p : prog A) (st : cstate) (al : N),
  run B p (flat st) al =
  (fst (fst (run_chunked B p st al)), flat (snd (fst (run_chunked B p st al))), snd (run_chunked B p st al)).
Proof. intros. apply run_chunked_flat. Qed.
Print Assumptions C12_split_independent_any_program.

(** streaming reads write exactly the payload bytes that a normal read of a string, integer or float
    reply returns: [payload v] is what streamTo hands to the writer (C29_bytes_payload), and it is the
    string / the numeral of the integer of the message [abs v] that readNextMessage decodes (C12_roundtrip) *)
Theorem C12_stream_payload : forall (B : nat) (v : rv) (p rest : bytes),
  (32 <= B)%nat -> wf v = true -> payload v = Some p ->
  stream B None (enc v ++ rest) = ((zlen p, SNone, true), rest, p) /\
  fst (decode B (enc v ++ rest)) = (Ok (abs v), rest) /\
  (p = m_str (abs v) \/ p = decZ (m_ival (abs v))).
Proof.
  intros B v p rest HB Hwf Hp. split; [now apply stream_payload_top|]. split; [now apply decode_roundtrip|].
  destruct (payload_is_read v p Hp) as [(_ & _ & H)|(_ & H)]; auto.
Qed.
Print Assumptions C12_stream_payload.

(** C14, last clause: the client's own reader decodes a written command to the array of its arguments *)
Theorem C14_own_reader : forall (B : nat) (argv : list bytes) (rest : bytes),
  (32 <= B)%nat -> Forall (fun a => blob_ok a = true) argv -> agg_ok argv = true ->
  fst (decode B (write_cmd argv ++ rest)) =
  (Ok (Msg tArray [] (zlen argv) (map (fun a => Msg tBlobString a (zlen a) [] None) argv) None), rest).
Proof. intros. now apply decode_write_cmd. Qed.
Print Assumptions C14_own_reader.

(** non-vacuity: a push carrying an attribute-decorated map with a streamed string, a RESP2 null, a
    streamed set and binary payloads containing CR LF; decoded through the smallest buffer, whole and
    one byte at a time *)
Example C12_nonvacuous :
  let v := VAgg tPush false
             [VLine tSimpleString (h "4f4b");
              VAttr [VLine tSimpleString (h "74746c"); VInt 3600] false
                (VAgg tMap false [VBlob tBlobString (h "6b0d0a00ff"); VBlobStream tBlobString [h "48656c"; h "6c6f"];
                                   VNull tBlobString; VAgg tSet true [VInt (-9223372036854775808); VBool true; VLine tFloat (h "2d696e66")]])] in
  wf v = true /\
  fst (decode 32 (enc v ++ [1; 2; 3])) = (Ok (abs v), [1; 2; 3]) /\
  fst (fst (decode_chunked 32 (map (fun b => [b]) (enc v)))) = Ok (abs v).
Proof. vm_compute. repeat split. Qed.
