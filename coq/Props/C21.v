(** C21 — Commands reach replicas only when the caller opts in.

    Objects: [standalone_route] / [standalone_route_multi] / [standalone_pick] and [sentinel_pick] /
    [sentinel_pick_multi] (Model/Replica.v: standalone.go, sentinel.go), [rebuild] / [pick_slot]
    (Model/ClusterTopo.v: cluster.go _refresh, _pick), over all predicates (their answers are inputs),
    selector results, random draws and topologies. *)
From Coq Require Import List Arith NArith ZArith Bool Lia.
Require Import RV.Model.Base RV.Model.ClusterTopo RV.Model.Replica.
Require Import RV.Proofs.ClusterTopoProofs RV.Proofs.ReplicaProofs.
Import ListNotations.
Open Scope Z_scope.

(** a replica destination implies the opt-in: SendToReplicas configured and true for the command —
    for non-cluster batches for every command of the batch — or a ReplicaOnly client *)
Theorem C21_replica_implies_optin :
  (forall has_str optin has_sel sel nnodes nrep rnd i,
      standalone_route has_str optin has_sel sel nnodes nrep rnd = Ok (DReplica i) -> has_str = true /\ optin = true) /\
  (forall has_str optins has_sel sel nnodes nrep rnd i,
      standalone_route_multi has_str optins has_sel sel nnodes nrep rnd = Ok (DReplica i) ->
      has_str = true /\ forall b, In b optins -> b = true) /\
  (forall replica_only has_str optin,
      sentinel_pick replica_only has_str optin = SReplica -> replica_only = true \/ (has_str = true /\ optin = true)) /\
  (forall replica_only has_str optins,
      sentinel_pick_multi replica_only has_str optins = SReplica ->
      replica_only = true \/ (has_str = true /\ forall b, In b optins -> b = true)).
Proof.
  split; [exact standalone_route_replica|]. split; [exact standalone_route_multi_replica|].
  split; [exact sentinel_pick_replica|exact sentinel_pick_multi_replica].
Qed.
Print Assumptions C21_replica_implies_optin.

(** the same for every entry point of the Client interface: Do, DoStream, Receive ask for the command;
    DoMulti, DoMultiStream for every command of the batch; standalone DoCache / DoMultiCache /
    Dedicated and sentinel Dedicated (unless ReplicaOnly) never leave the primary *)
Theorem C21_entry_points :
  (forall e has_str optins has_sel sel nnodes nrep rnd i,
      standalone_entry e has_str optins has_sel sel nnodes nrep rnd = Ok (DReplica i) ->
      has_str = true /\
      match e with
      | EDo | EDoStream | EReceive => hd false optins = true
      | EDoMulti | EDoMultiStream => forall b, In b optins -> b = true
      | _ => False
      end) /\
  (forall e replica_only has_str optins,
      sentinel_entry e replica_only has_str optins = SReplica ->
      replica_only = true \/
      (has_str = true /\
       match e with
       | EDo | EDoCache | EDoStream | EReceive => hd false optins = true
       | EDoMulti | EDoMultiCache | EDoMultiStream => forall b, In b optins -> b = true
       | EDedicated => False
       end)).
Proof. split; [exact standalone_entry_replica|exact sentinel_entry_replica]. Qed.
Print Assumptions C21_entry_points.

(** cluster DoMultiStream streams one batch to one node: a single command of the batch for which
    SendToReplicas is false — keyed or without key slot, first, in the middle or last — keeps the
    batch on the write table (the primary of the slot's shard by C21_cluster_primary_without_optin) *)
Theorem C21_cluster_multistream : forall t has_str cs nsel d,
  (has_str = false \/ exists c, In c cs /\ b_replica c = false) ->
  cluster_multistream t has_str cs nsel = Ok d ->
  exists slot, d = cluster_pick t slot false nsel /\
               match slot with Some s => d = CNode (tb_w t s) | None => d = CAny end.
Proof. exact cluster_multistream_no_optin. Qed.
Print Assumptions C21_cluster_multistream.

(** cluster Do / DoCache / DoStream / Receive / Dedicated: without opt-in (Dedicated: always) a keyed
    command goes to the write table.  A command without key slot goes to an arbitrary connection of
    the client ([CAny]) — see the known finding cluster.go:_pick / keyless-command-any-node *)
Theorem C21_cluster_entry_single : forall e t has_str c nsel,
  (e = EDedicated \/ has_str = false \/ b_replica c = false) ->
  cluster_entry_single e t has_str c nsel = match b_slot c with Some s => CNode (tb_w t s) | None => CAny end.
Proof. exact cluster_entry_single_no_optin. Qed.
Print Assumptions C21_cluster_entry_single.

(** cluster: a command that did not opt in, on a client that is not ReplicaOnly, goes to the primary
    of the shard that lists its slot — for every topology, in every iteration order of the groups *)
Theorem C21_cluster_primary_without_optin : forall c gs t s nsel,
  rebuild c gs = Ok t -> t_kind c <> CfgReplicaOnly ->
  pick_slot t s false nsel = match last_owner gs s with Some g => primary g | None => None end.
Proof. exact cluster_no_optin_primary. Qed.
Print Assumptions C21_cluster_primary_without_optin.

(** cluster: with opt-in (or ReplicaOnly) the destination is a node of the shard that lists the slot;
    ReplicaOnly picks a replica whenever the shard has one *)
Theorem C21_cluster_optin_in_shard : forall c gs t s nsel a g,
  rebuild c gs = Ok t -> last_owner gs s = Some g -> pick_slot t s true nsel = Some a -> In a (g_nodes g).
Proof. exact pick_optin_in_shard. Qed.
Print Assumptions C21_cluster_optin_in_shard.

Theorem C21_cluster_replicaonly : forall c gs t s nsel to_replica a g,
  rebuild c gs = Ok t -> t_kind c = CfgReplicaOnly -> last_owner gs s = Some g ->
  pick_slot t s to_replica nsel = Some a ->
  match g_nodes g with
  | _ :: ((_ :: _) as reps) => In a reps
  | [p] => a = p
  | [] => False
  end.
Proof. exact cluster_replicaonly. Qed.
Print Assumptions C21_cluster_replicaonly.

(** a node-selector result outside the candidate list falls back to the primary *)
Theorem C21_selector_out_of_range_falls_back :
  (forall sel nnodes nrep rnd,
      sel < 0 \/ Z.of_nat nnodes <= sel -> standalone_pick true sel nnodes nrep rnd = Ok DPrimary) /\
  (forall c gs s g p reps,
      t_kind c = CfgReplicaSelector -> last_owner gs s = Some g -> g_nodes g = p :: reps ->
      (t_rsel c s reps < 0 \/ Z.of_nat (length reps) <= t_rsel c s reps) -> rslot c gs s = [p]) /\
  (forall c gs t s nsel g p reps,
      rebuild c gs = Ok t -> t_kind c = CfgReadNodeSelector -> last_owner gs s = Some g -> g_nodes g = p :: reps ->
      (nsel < 0 \/ Z.of_nat (length (p :: reps)) <= nsel) -> pick_slot t s true nsel = Some p).
Proof.
  split; [exact standalone_pick_out_of_range|]. split; [exact rslot_selector_fallback|exact pick_readsel_fallback].
Qed.
Print Assumptions C21_selector_out_of_range_falls_back.

(** … and one inside it is honoured *)
Theorem C21_selector_in_range :
  (forall sel nnodes nrep rnd, 0 < sel < Z.of_nat nnodes -> nnodes = S nrep ->
      standalone_pick true sel nnodes nrep rnd = Ok (DReplica (Z.to_nat sel - 1))) /\
  (forall c gs s g p reps a,
      t_kind c = CfgReplicaSelector -> last_owner gs s = Some g -> g_nodes g = p :: reps -> reps <> [] ->
      0 <= t_rsel c s reps < Z.of_nat (length reps) -> nth_error reps (Z.to_nat (t_rsel c s reps)) = Some a ->
      rslot c gs s = [a]).
Proof. split; [exact standalone_pick_in_range|exact rslot_selector_in_range]. Qed.
Print Assumptions C21_selector_in_range.

(** the configuration corner the model exposes: SendToReplicas without any replica (possible with
    EnableRedirect, which excludes ReplicaAddress) makes standalone.pick call rand.IntN(0) *)
Theorem C21_standalone_no_replica_panics : forall sel nnodes rnd,
  standalone_route true true false sel nnodes 0 rnd = Panic.
Proof. reflexivity. Qed.
Print Assumptions C21_standalone_no_replica_panics.

(** ---- non-vacuity ---- *)
Example C21_nonvacuous :
  let a n : addr := ([49%N], n) in
  let gs := [mkGroup [a 1; a 2; a 3] [(0, 100)]] in
  match rebuild (mkTcfg CfgReplicaSelector (fun _ _ => 1) (fun _ => O)) gs with
  | Ok t => pick_slot t 5 true 0 = Some (a 3) /\ pick_slot t 5 false 0 = Some (a 1)
  | _ => False
  end /\
  standalone_route true true true 2 3 2 0 = Ok (DReplica 1) /\ sentinel_pick false true false = SMaster.
Proof. vm_compute. repeat split; reflexivity. Qed.
