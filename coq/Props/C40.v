(** C40 — Object-mapping saves are optimistic and round-trip.

    Model: Model/Om.v (hashSaveScript / jsonSaveScript as state transformers on one key; toExec, Save,
    Fetch and the field converters of om/conv.go).  A script execution is atomic on the server, so
    "concurrent Save calls" are the saves of a history in any order: the theorems quantify over all
    histories ([list op]), all initial server states, all entities of all schemas.

    Abstract (universally quantified, with the stated law): the JSON codec of struct-like hash fields
    ([jprint]/[jparse]), and for the JSON repository the RedisJSON document store and the entity codec.

    Preconditions that are part of the statements:
    - [wf]: the entity has the schema's fields (distinct non-empty names), int64 / float-bit values in range;
    - [lua_ver_ok]: -10^14 < version and version + 1 < 10^14 (Lua 5.1 prints larger numbers in exponent
      form; such versions need 10^14 saves and are outside the model: outcome [SaveOutOfRange]);
    - [quiet]: during the history the key does not expire, is not removed, is not written by another
      application, and no save writes an entity whose exat is already in the past ([ext_future]).

    Values, not cells: an entity of the model is an immutable VALUE (a version and a list of field
    values); Fetch returns a value, and nothing the caller does with one entity afterwards can reach
    another.  The Go entities are structs with pointer, slice and struct fields, so this is an
    assumption about the code — "two decoded entities never share a memory cell with each other, with
    the reply they were decoded from, or with a process-wide variable" — that no theorem here can
    state.  Its tie is the observer: obs_om writes through every pointer / slice / nested field of
    entities Fetch and FetchCache handed out earlier (ops mutate and modsave) and then re-checks every
    other field of every fetched entity, later fetches, the entity of a second key and the next save
    (oracle classes fetched-values-share-cells, roundtrip, roundtrip-other-key).  It found that a
    []byte field shared the bytes of the (cached) reply string; fixed by "om copies []byte fields out
    of the reply string".

    The theorems are about the code as repaired by the fix "om: clear hash fields of nil pointers"
    (suspicion S3 of DESIGN.md, confirmed): before it, nil pointer fields were neither written nor
    cleared, and [C40_unfixed_script_keeps_stale_field] below exhibits the stale field in the model of
    the old argument vector. *)
From Coq Require Import List Arith NArith ZArith Bool String.
Require Import RV.Model.Base RV.Model.Om RV.Proofs.OmProofs.
Import ListNotations.
Open Scope N_scope.
Open Scope string_scope.

(** At most one of the saves that carry version [v] succeeds — in every history of saves and fetches
    (any versions, any entities, any initial server state) during which the key is [quiet]. *)
Theorem C40_one_winner :
  forall (J : Type) (jprint : J -> bytes) (jparse : bytes -> option J) (jzero : bytes -> J)
         (sc : schema) (vn : bytes) (v : Z) (ops : list (op J)) (st : option hrec),
    s_ver sc = Some vn -> saves_wf J sc ops -> quiet J jprint sc st ops ->
    (wins J v ops (snd (run J jprint jparse jzero sc st ops)) <= 1)%nat.
Proof. intros J jprint jparse jzero sc vn v ops st H. exact (one_winner J jprint sc jparse jzero vn v H ops st). Qed.
Print Assumptions C40_one_winner.

(** … and every save of the history answers with its version + 1 or with ErrVersionMismatch. *)
Theorem C40_others_mismatch :
  forall (J : Type) (jprint : J -> bytes) (jparse : bytes -> option J) (jzero : bytes -> J)
         (sc : schema) (vn : bytes) (ops : list (op J)) (st : option hrec),
    s_ver sc = Some vn -> saves_wf J sc ops -> quiet J jprint sc st ops ->
    Forall2 (fun o b => match o with
                        | OSave _ _ e => b = BSave J (SaveOk (e_ver J e + 1)%Z) \/ b = BSave J SaveMismatch
                        | _ => True end) ops (snd (run J jprint jparse jzero sc st ops)).
Proof. intros J jprint jparse jzero sc vn ops st H. exact (history_outcomes J jprint sc jparse jzero vn H ops st). Qed.
Print Assumptions C40_others_mismatch.

(** A successful Save reports version + 1 and stores exactly that numeral in the version field. *)
Theorem C40_version_plus_one :
  forall (J : Type) (jprint : J -> bytes) (sc : schema) (now : Z) (st0 st' : option hrec)
         (e : entity J) (v' : Z) (vn : bytes),
    s_ver sc = Some vn -> wf J sc e -> lua_ver_ok (e_ver J e) = true ->
    save J jprint sc now st0 e = (st', SaveOk v') ->
    v' = (e_ver J e + 1)%Z /\
    (ext_future J now e -> exists r, st' = Some r /\ hget (h_fields r) vn = Some (print_Z (e_ver J e + 1)%Z)).
Proof. intros J jprint sc now st0 st' e v' vn. exact (version_plus_one J jprint sc now st0 e st' v' vn). Qed.
Print Assumptions C40_version_plus_one.

(** Fetch after a successful Save — at any instant at which the key still lives, over any previous
    content of the key — returns the saved entity: same key, every field of every supported kind
    (nil pointers included), and the version the save reported. *)
Theorem C40_roundtrip :
  forall (J : Type) (jprint : J -> bytes) (jparse : bytes -> option J) (jzero : bytes -> J),
    (forall j, jparse (jprint j) = Some j) ->
  forall (sc : schema) (now now' : Z) (st0 st' : option hrec) (e : entity J) (v' : Z),
    wf J sc e -> ver_in_range J sc e -> ext_future J now e ->
    save J jprint sc now st0 e = (st', SaveOk v') -> live now' st' = st' ->
    exists e', fetch J jparse jzero sc now' st' = Ok e' /\ e_key J e' = e_key J e /\
               e_fields J e' = e_fields J e /\
               e_ver J e' = match s_ver sc with Some _ => v' | None => 0%Z end.
Proof. intros J jprint jparse jzero H sc now now' st0 st' e v'. exact (roundtrip J jprint sc jparse jzero H now now' st0 e st' v'). Qed.
Print Assumptions C40_roundtrip.

(** The key is live at the instant of the save, so [C40_roundtrip]'s last hypothesis is satisfiable. *)
Theorem C40_saved_key_lives :
  forall (J : Type) (jprint : J -> bytes) (sc : schema) (now : Z) (st0 st' : option hrec) (e : entity J) (v' : Z),
    wf J sc e -> ver_in_range J sc e -> ext_future J now e ->
    save J jprint sc now st0 e = (st', SaveOk v') -> live now st' = st' /\ st' <> None.
Proof. intros J jprint sc now st0 st' e v'. exact (save_ok_live J jprint sc now st0 e st' v'). Qed.
Print Assumptions C40_saved_key_lives.

(** JSON repository (partial: RedisJSON and the entity codec are abstract, constrained by two laws). *)
Section JsonStatement.
  Variables (doc ent : Type).
  Variables (jset : bytes -> option doc) (jget : doc -> bytes -> option bytes)
            (jincr : doc -> bytes -> option (doc * bytes)) (jroot : doc -> bytes)
            (jenc : ent -> bytes) (jdec : bytes -> option ent)
            (ent_ver : ent -> Z) (ent_set_ver : ent -> Z -> ent) (ent_ext : ent -> Z) (vn : bytes).

  Definition json_laws : Prop :=
    vn <> [] /\
    (forall e, exists d, jset (jenc e) = Some d /\ jget d vn = Some (print_Z (ent_ver e)) /\ jdec (jroot d) = Some e) /\
    (forall d z, jget d vn = Some (print_Z z) -> exists d',
        jincr d vn = Some (d', print_Z (z + 1)%Z) /\ jget d' vn = Some (print_Z (z + 1)%Z) /\
        (forall e, jdec (jroot d) = Some e -> jdec (jroot d') = Some (ent_set_ver e (z + 1)%Z))).
End JsonStatement.

Theorem C40_json_one_winner_partial :
  forall doc ent jset jget jincr jroot jenc jdec ent_ver ent_set_ver ent_ext vn,
    json_laws doc ent jset jget jincr jroot jenc jdec ent_ver ent_set_ver vn ->
  forall (v : Z) (ops : list (Z * ent)) (st : option (jrec doc)),
    doc_ok doc jget vn st -> jquiet doc jset jget jincr ent jenc ent_ver ent_ext vn st ops ->
    (jwins ent ent_ver v ops (jhist doc jset jget jincr ent jenc ent_ver ent_ext vn st ops) <= 1)%nat.
Proof.
  intros doc ent jset jget jincr jroot jenc jdec ent_ver ent_set_ver ent_ext vn (H1 & H2 & H3) v ops st.
  exact (json_one_winner doc jset jget jincr jroot ent jenc jdec ent_ver ent_set_ver ent_ext vn H1 H2 H3 v ops st).
Qed.
Print Assumptions C40_json_one_winner_partial.

Theorem C40_json_others_mismatch_partial :
  forall doc ent jset jget jincr jroot jenc jdec ent_ver ent_set_ver ent_ext vn,
    json_laws doc ent jset jget jincr jroot jenc jdec ent_ver ent_set_ver vn ->
  forall (ops : list (Z * ent)) (st : option (jrec doc)),
    doc_ok doc jget vn st -> jquiet doc jset jget jincr ent jenc ent_ver ent_ext vn st ops ->
    Forall2 (fun o r => r = JSaveOk (ent_ver (snd o) + 1)%Z \/ r = JSaveMismatch) ops
            (jhist doc jset jget jincr ent jenc ent_ver ent_ext vn st ops).
Proof.
  intros doc ent jset jget jincr jroot jenc jdec ent_ver ent_set_ver ent_ext vn (H1 & H2 & H3) ops st.
  exact (json_history_outcomes doc jset jget jincr jroot ent jenc jdec ent_ver ent_set_ver ent_ext vn H1 H2 H3 ops st).
Qed.
Print Assumptions C40_json_others_mismatch_partial.

Theorem C40_json_save_fetch_partial :
  forall doc ent jset jget jincr jroot jenc jdec ent_ver ent_set_ver ent_ext vn,
    json_laws doc ent jset jget jincr jroot jenc jdec ent_ver ent_set_ver vn ->
  forall (now now' : Z) (st0 st' : option (jrec doc)) (e : ent) (v' : Z),
    ent_ok ent ent_ver ent_ext e -> doc_ok doc jget vn (jlive doc now st0) -> jext_future ent ent_ext now e ->
    jsave doc jset jget jincr ent jenc ent_ver ent_ext vn now st0 e = (st', JSaveOk v') ->
    jlive doc now' st' = st' ->
    v' = (ent_ver e + 1)%Z /\ jfetch doc jroot ent jdec now' st' = Ok (ent_set_ver e (ent_ver e + 1)%Z).
Proof.
  intros doc ent jset jget jincr jroot jenc jdec ent_ver ent_set_ver ent_ext vn (H1 & H2 & H3) now now' st0 st' e v'.
  exact (json_save_fetch doc jset jget jincr jroot ent jenc jdec ent_ver ent_set_ver ent_ext vn H1 H2 H3 now now' st0 e st' v').
Qed.
Print Assumptions C40_json_save_fetch_partial.

(** ---- non-vacuity and the S3 witness, on the tie's instance (struct value = its JSON text) ---- *)

Definition ex_schema : schema :=
  {| s_key := h "4b6579"; s_ver := Some (h "566572");
     s_fields := [(h "4631", KBool); (h "4633", KPStr); (h "4634", KPInt); (h "56616c", KBytes); (h "5633", KVec32)] |}.

Definition ex_entity (p : option bytes) (ver : Z) : tentity :=
  {| e_key := h "6b31"; e_ver := ver;
     e_fields := [(h "4631", VBool true); (h "4633", VPStr p); (h "4634", VPInt (Some (-5)%Z));
                  (h "56616c", VBytes (h "00ff")); (h "5633", VVec32 [0x7fc00001; 0x80000000])];
     e_ext := 0 |}.

(** two savers with the same version: one winner, one mismatch; then a save of a nil pointer over the
    stored string, and the fetch returns the nil *)
Example C40_nonvacuous :
  snd (run tJ tjprint tjparse tjzero ex_schema None
         [OSave _ 10%Z (ex_entity (Some (h "6f6c64")) 0); OSave _ 11%Z (ex_entity (Some (h "78")) 0);
          OSave _ 12%Z (ex_entity None 1); OFetch _ 13%Z]) =
  [BSave _ (SaveOk 1); BSave _ SaveMismatch; BSave _ (SaveOk 2);
   BFetch _ (Ok (with_ver _ (ex_entity None 2) 2))].
Proof. vm_compute. reflexivity. Qed.

Example C40_nonvacuous_hyps :
  fields_ok tJ (e_fields _ (ex_entity None 1)) (s_fields ex_schema) = true /\
  lua_ver_ok 1 = true /\ wins tJ 0%Z
    [OSave _ 10%Z (ex_entity (Some (h "6f6c64")) 0); OSave _ 11%Z (ex_entity (Some (h "78")) 0)]
    [BSave _ (SaveOk 1); BSave _ SaveMismatch] = 1%nat.
Proof. vm_compute. repeat split. Qed.

(** S3 as it was before the fix: the old toExec sent no names to clear (in the repaired script that is
    the argument vector with an empty clear list), and the stale string survives the save of a nil. *)
Definition old_args (e : tentity) : list bytes :=
  ver_name ex_schema :: print_Z (e_ver _ e) :: (s_key ex_schema :: e_key _ e :: field_pairs tJ tjprint (e_fields _ e)) ++ [print_N 0].

Example C40_unfixed_script_keeps_stale_field :
  let st1 := fst (hash_save_script 10%Z None (old_args (ex_entity (Some (h "6f6c64")) 0))) in
  let st2 := fst (hash_save_script 12%Z st1 (old_args (ex_entity None 1))) in
  match fetch tJ tjparse tjzero ex_schema 13%Z st2 with
  | Ok e' => e_fields _ e' = e_fields _ (ex_entity (Some (h "6f6c64")) 0)   (* the old *string is back, not nil *)
  | _ => False
  end.
Proof. vm_compute. reflexivity. Qed.
