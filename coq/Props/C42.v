(** C42 — the go-redis adapter sends the same commands as go-redis.

    [adapter] (Model/CompatArgs.v) is the argument construction of rueidiscompat/adapter.go, tied to the code
    on every run; [goredis] (Model/GoRedisSpec.v) is the hand-written specification of go-redis v9 (trusted,
    go-redis is not installed).  [same F ff fpos c] is
        wire (adapter F ff fpos c) = wire (goredis F ff fpos c):
    both send nothing (error / panic), or both send a command and the two commands are equal up to [norm]
    (keywords upper-cased, the default "=" of MAXLEN/MINID dropped, SET options in canonical order; keys and
    values byte for byte).  Every theorem quantifies over all arguments, including unbounded lists of keys,
    members, ids, streams and field values, over the float type [F] with any formatting [ff] and any
    positivity test [fpos].

    Methods outside the list are not claimed.  [_partial] theorems carry a hypothesis on the arguments:
    either the rest is a KNOWN DIFFERENCE, characterised exactly by the [_characterised] theorem next to it
    (and witnessed by [_refuted]), or the specification is not certain outside (said in the comment). *)
From Coq Require Import List NArith ZArith String Bool.
Require Import RV.Model.Base RV.Model.CompatBase RV.Model.GoRedisSpec RV.Model.CompatArgs RV.Proofs.CompatArgsProofs.
Import ListNotations.
Local Open Scope Z_scope.

Section C42.
Variable F : Type.
Variable ff : F -> bytes.
Variable fpos : F -> bool.
Notation same := (same F ff fpos).
Notation adapter := (adapter F ff fpos).
Notation goredis := (goredis F ff fpos).

Theorem C42_Set_equiv : forall key v exp, same (MSet key v exp).
Proof. exact (Set_equiv F ff fpos). Qed.

Theorem C42_SetEX_equiv : forall key v exp, same (MSetEX key v exp).
Proof. exact (SetEX_equiv F ff fpos). Qed.

Theorem C42_SetNX_equiv : forall key v exp, same (MSetNX key v exp).
Proof. exact (SetNX_equiv F ff fpos). Qed.

Theorem C42_SetXX_equiv : forall key v exp, same (MSetXX key v exp).
Proof. exact (SetXX_equiv F ff fpos). Qed.

Theorem C42_Expire_equiv : forall m key d, same (MExpire m key d).
Proof. exact (Expire_equiv F ff fpos). Qed.

Theorem C42_PExpire_equiv : forall key d, same (MPExpire key d).
Proof. exact (PExpire_equiv F ff fpos). Qed.

Theorem C42_ExpireAt_equiv : forall key t, same (MExpireAt key t).
Proof. exact (ExpireAt_equiv F ff fpos). Qed.

Theorem C42_PExpireAt_equiv : forall key t, same (MPExpireAt key t).
Proof. exact (PExpireAt_equiv F ff fpos). Qed.

Theorem C42_Copy_equiv : forall src dst db replace, same (MCopy src dst db replace).
Proof. exact (Copy_equiv F ff fpos). Qed.

Theorem C42_Restore_equiv : forall replace key ttl v, same (MRestore replace key ttl v).
Proof. exact (Restore_equiv F ff fpos). Qed.

Theorem C42_BitCount_equiv : forall key bc, same (MBitCount key bc).
Proof. exact (BitCount_equiv F ff fpos). Qed.

Theorem C42_BitPos_equiv : forall key bit pos, same (MBitPos key bit pos).
Proof. exact (BitPos_equiv F ff fpos). Qed.

Theorem C42_BitField_equiv : forall key args, same (MBitField key args).
Proof. exact (BitField_equiv F ff fpos). Qed.

Theorem C42_MemoryUsage_equiv : forall key samples, same (MMemoryUsage key samples).
Proof. exact (MemoryUsage_equiv F ff fpos). Qed.

Theorem C42_LPos_equiv : forall key elem rank maxlen, same (MLPos key elem rank maxlen).
Proof. exact (LPos_equiv F ff fpos). Qed.

Theorem C42_LPosCount_equiv : forall key elem count rank maxlen, same (MLPosCount key elem count rank maxlen).
Proof. exact (LPosCount_equiv F ff fpos). Qed.

Theorem C42_LInsertBA_equiv : forall before key pivot elem, same (MLInsertBA before key pivot elem).
Proof. exact (LInsertBA_equiv F ff fpos). Qed.

Theorem C42_ZAdd_equiv : forall fl key members, same (MZAdd fl key members).
Proof. exact (ZAdd_equiv F ff fpos). Qed.

Theorem C42_ZAddArgs_equiv : forall incr key a members, same (MZAddArgs incr key a members).
Proof. exact (ZAddArgs_equiv F ff fpos). Qed.

Theorem C42_ZRangeBy_equiv : forall w key o, same (MZRangeBy w key o).
Proof. exact (ZRangeBy_equiv F ff fpos). Qed.

Theorem C42_ZStoreOp_equiv : forall w s, same (MZStoreOp w s).
Proof. exact (ZStoreOp_equiv F ff fpos). Qed.

Theorem C42_ZStoreTo_equiv : forall w dst s, same (MZStoreTo w dst s).
Proof. exact (ZStoreTo_equiv F ff fpos). Qed.

Theorem C42_ZDiff_equiv : forall ws keys, same (MZDiff ws keys).
Proof. exact (ZDiff_equiv F ff fpos). Qed.

Theorem C42_ZDiffStore_equiv : forall dst keys, same (MZDiffStore dst keys).
Proof. exact (ZDiffStore_equiv F ff fpos). Qed.

Theorem C42_XAdd_equiv : forall a, same (MXAdd a).
Proof. exact (XAdd_equiv F ff fpos). Qed.

Theorem C42_XReadStreams_equiv : forall streams, same (MXReadStreams streams).
Proof. exact (XReadStreams_equiv F ff fpos). Qed.

Theorem C42_XPendingExt_equiv : forall a, same (MXPendingExt a).
Proof. exact (XPendingExt_equiv F ff fpos). Qed.

Theorem C42_XAutoClaim_equiv : forall justid a, same (MXAutoClaim justid a).
Proof. exact (XAutoClaim_equiv F ff fpos). Qed.

Theorem C42_XTrim_equiv : forall key t, same (MXTrim key t).
Proof. exact (XTrim_equiv F ff fpos). Qed.

Theorem C42_XInfoStreamFull_equiv : forall key count, same (MXInfoStreamFull key count).
Proof. exact (XInfoStreamFull_equiv F ff fpos). Qed.

Theorem C42_GeoAdd_equiv : forall key locs, same (MGeoAdd key locs).
Proof. exact (GeoAdd_equiv F ff fpos). Qed.

Theorem C42_GeoRadius_equiv : forall store key lon lat q, same (MGeoRadius store key lon lat q).
Proof. exact (GeoRadius_equiv F ff fpos). Qed.

Theorem C42_GeoRadiusByMember_equiv : forall store key member q, same (MGeoRadiusByMember store key member q).
Proof. exact (GeoRadiusByMember_equiv F ff fpos). Qed.

Theorem C42_GeoSearch_equiv : forall key q, same (MGeoSearch key q).
Proof. exact (GeoSearch_equiv F ff fpos). Qed.

Theorem C42_GeoSearchLocation_equiv : forall key q wc wd wh, same (MGeoSearchLocation key q wc wd wh).
Proof. exact (GeoSearchLocation_equiv F ff fpos). Qed.

Theorem C42_GeoSearchStore_equiv : forall src dst q storedist, same (MGeoSearchStore src dst q storedist).
Proof. exact (GeoSearchStore_equiv F ff fpos). Qed.

Theorem C42_FunctionLoad_equiv : forall replace code, same (MFunctionLoad replace code).
Proof. exact (FunctionLoad_equiv F ff fpos). Qed.

Theorem C42_ClientKillByFilter_equiv : forall keys, same (MClientKillByFilter keys).
Proof. exact (ClientKillByFilter_equiv F ff fpos). Qed.


(** ---- known differences, exactly characterised ---- *)

(** SetArgs: go-redis passes Mode through to the server; the adapter panics unless Mode is "", NX or XX in any
    letter case (adapter_test.go pins the panic). *)
Theorem C42_SetArgs_equiv_partial : forall key v a, valid_mode (sa_mode a) -> same (MSetArgs key v a).
Proof. exact (SetArgs_equiv F ff fpos). Qed.
Theorem C42_SetArgs_characterised : forall key v a, same (MSetArgs key v a) <-> valid_mode (sa_mode a).
Proof. exact (SetArgs_iff F ff fpos). Qed.
Theorem C42_SetArgs_refuted : exists key v a, ~ same (MSetArgs key v a).
Proof.
  exists (bs "k"), (AStr (bs "v")), (mkSetArgs (bs "GT") 0 None false false). intro H.
  apply C42_SetArgs_characterised in H. destruct H as [H|[H|H]]; vm_compute in H; discriminate.
Qed.

(** Sort / SortRO / SortStore / SortInterfaces: go-redis passes Order through; the adapter panics unless it is
    "", ASC or DESC in any letter case (pinned by adapter_test.go).  SortStore with an empty destination is left
    out: go-redis omits STORE then, the adapter sends STORE "" (specification certain, difference not pinned,
    no caller can mean it). *)
Theorem C42_Sort_equiv_partial : forall c key s, valid_order (so_order s) -> valid_sortcmd c -> same (MSort c key s).
Proof. exact (Sort_equiv F ff fpos). Qed.
Theorem C42_Sort_characterised : forall c key s, valid_sortcmd c -> (same (MSort c key s) <-> valid_order (so_order s)).
Proof. exact (Sort_iff F ff fpos). Qed.
Theorem C42_Sort_refuted : exists c key s, ~ same (MSort c key s).
Proof.
  exists SortPlain, (bs "k"), (mkSort [] (bs "up") [] 0 0 false). intro H.
  apply C42_Sort_characterised in H; [|exact I]. destruct H as [H|[H|H]]; vm_compute in H; discriminate.
Qed.

(** LInsert: go-redis passes op through; the adapter panics unless it is BEFORE or AFTER (pinned). *)
Theorem C42_LInsert_equiv_partial : forall key op pivot elem, valid_op op -> same (MLInsert key op pivot elem).
Proof. exact (LInsert_equiv F ff fpos). Qed.
Theorem C42_LInsert_characterised : forall key op pivot elem, same (MLInsert key op pivot elem) <-> valid_op op.
Proof. exact (LInsert_iff F ff fpos). Qed.
Theorem C42_LInsert_refuted : exists key op pivot elem, ~ same (MLInsert key op pivot elem).
Proof.
  exists (bs "k"), (bs "x"), ANil, ANil. intro H. apply C42_LInsert_characterised in H.
  destruct H as [H|H]; vm_compute in H; discriminate.
Qed.

(** Migrate: the adapter prints the timeout in seconds (formatSec), go-redis in milliseconds (formatMs) — as the
    MIGRATE command expects; TestPipeliner pins ["MIGRATE","host","0","1","0","1"] for one second. *)
Theorem C42_Migrate_characterised : forall host port key db timeout,
  same (MMigrate host port key db timeout) <-> a_format_sec timeout = a_format_ms timeout.
Proof. exact (Migrate_iff F ff fpos). Qed.
Theorem C42_Migrate_equiv_partial : forall host port key db timeout,
  a_format_sec timeout = a_format_ms timeout -> same (MMigrate host port key db timeout).
Proof. intros. apply C42_Migrate_characterised. assumption. Qed.
Theorem C42_Migrate_refuted : exists host port key db timeout, ~ same (MMigrate host port key db timeout).
Proof.
  exists (bs "h"), 6379, (bs "k"), 0, 1000000000. intro H. apply C42_Migrate_characterised in H.
  vm_compute in H. discriminate.
Qed.

(** ZRangeArgs / ZRangeArgsWithScores / ZRangeStore: go-redis exchanges Start and Stop when Rev is combined with
    ByScore or ByLex, the adapter does not (adapter_test.go and TestPipeliner pin the adapter's order). *)
Theorem C42_ZRangeArgs_equiv_partial : forall ws z, zr_ok z -> same (MZRangeArgs ws z).
Proof. exact (ZRangeArgs_equiv F ff fpos). Qed.
Theorem C42_ZRangeArgs_characterised : forall ws z, same (MZRangeArgs ws z) <-> zr_ok z.
Proof. exact (ZRangeArgs_iff F ff fpos). Qed.
Theorem C42_ZRangeStore_equiv_partial : forall dst z, zr_ok z -> same (MZRangeStore dst z).
Proof. exact (ZRangeStore_equiv F ff fpos). Qed.
Theorem C42_ZRangeStore_characterised : forall dst z, same (MZRangeStore dst z) <-> zr_ok z.
Proof. exact (ZRangeStore_iff F ff fpos). Qed.
Theorem C42_ZRangeArgs_refuted : exists ws z, ~ same (MZRangeArgs ws z).
Proof.
  exists false, (mkZRange (bs "z") (AInt 1) (AInt 4) true false true 0 0). intro H.
  apply C42_ZRangeArgs_characterised in H. destruct H as [H|H]; vm_compute in H; discriminate.
Qed.

(** GetEx: go-redis sends GETEX key PERSIST for a zero expiration (the doc comment of the adapter says so too), the
    adapter sends a plain GETEX key; pinned by rueidiscompatmock/adapter_test.go TestStringCommands. *)
Theorem C42_GetEx_equiv_partial : forall key exp, exp <> 0 -> same (MGetEx key exp).
Proof. exact (GetEx_equiv F ff fpos). Qed.
Theorem C42_GetEx_characterised : forall key exp, same (MGetEx key exp) <-> exp <> 0.
Proof. exact (GetEx_iff F ff fpos). Qed.
Theorem C42_GetEx_refuted : exists key exp, ~ same (MGetEx key exp).
Proof. exists (bs "k"), 0. exact (GetEx_zero_differs F ff fpos (bs "k")). Qed.

(** XRead / XReadGroup (Block) and XClaim / XClaimJustID (MinIdle): the adapter uses formatMs, which rounds a
    positive duration below one millisecond up to 1; go-redis computes int64(d / time.Millisecond) = 0
    (BLOCK 0 blocks for ever). *)
Theorem C42_XRead_equiv_partial : forall count block streams, sub_ms block = false -> same (MXRead count block streams).
Proof. exact (XRead_equiv F ff fpos). Qed.
Theorem C42_XRead_characterised : forall count block streams, same (MXRead count block streams) <-> sub_ms block = false.
Proof. exact (XRead_iff F ff fpos). Qed.
Theorem C42_XReadGroup_equiv_partial : forall group consumer count block noack streams,
  sub_ms block = false -> same (MXReadGroup group consumer count block noack streams).
Proof. exact (XReadGroup_equiv F ff fpos). Qed.
Theorem C42_XReadGroup_characterised : forall group consumer count block noack streams,
  same (MXReadGroup group consumer count block noack streams) <-> sub_ms block = false.
Proof. exact (XReadGroup_iff F ff fpos). Qed.
Theorem C42_XClaim_equiv_partial : forall justid a, sub_ms (xc_minidle a) = false -> same (MXClaim justid a).
Proof. exact (XClaim_equiv F ff fpos). Qed.
Theorem C42_XClaim_characterised : forall justid a, same (MXClaim justid a) <-> sub_ms (xc_minidle a) = false.
Proof. exact (XClaim_iff F ff fpos). Qed.
Theorem C42_XRead_refuted : exists count block streams, ~ same (MXRead count block streams).
Proof.
  exists 0, 500000, []. intro H. apply C42_XRead_characterised in H. vm_compute in H. discriminate.
Qed.

(** ---- partial because the specification is not certain outside the hypothesis ---- *)

(** BitPosSpan: go-redis passes span through; the adapter sends BIT for "bit" (any case) and BYTE for anything
    else.  Claimed for span = bit / byte in any letter case. *)
Theorem C42_BitPosSpan_equiv_partial : forall key bit start stop span,
  valid_span span -> same (MBitPosSpan key bit start stop span).
Proof. exact (BitPosSpan_equiv F ff fpos). Qed.

(** LMPop / BLMPop: go-redis always appends COUNT count, the adapter only for count > 0. Claimed for count > 0. *)
Theorem C42_LMPop_equiv_partial : forall dir count keys, 0 < count -> same (MLMPop dir count keys).
Proof. exact (LMPop_equiv F ff fpos). Qed.
Theorem C42_BLMPop_equiv_partial : forall timeout dir count keys, 0 < count -> same (MBLMPop timeout dir count keys).
Proof. exact (BLMPop_equiv F ff fpos). Qed.

(** SCAN family (Scan, ScanType, SScan, HScan, HScanNoValues, ZScan): the adapter prints the cursor with
    FormatInt(int64(cursor)), go-redis as an unsigned number; the same digits below 2^63. Above, the adapter sends the
    two's-complement negative spelling; whether Redis reads that as the same cursor depends on its version
    (strtoul accepts it, string2ull does not), so nothing is claimed there. *)
Theorem C42_Scan_equiv_partial : forall cursor mtch count, (cursor < 2 ^ 63)%N -> same (MScan cursor mtch count).
Proof. exact (Scan_equiv F ff fpos). Qed.
Theorem C42_ScanType_equiv_partial : forall cursor mtch count typ, (cursor < 2 ^ 63)%N -> same (MScanType cursor mtch count typ).
Proof. exact (ScanType_equiv F ff fpos). Qed.
Theorem C42_KScan_equiv_partial : forall w key cursor mtch count, (cursor < 2 ^ 63)%N -> same (MKScan w key cursor mtch count).
Proof. exact (KScan_equiv F ff fpos). Qed.

(** ACLLog: go-redis leaves the count out unless it is positive (certainty of the specification: moderate), the
    adapter always sends it. Claimed for count > 0. *)
Theorem C42_ACLLog_equiv_partial : forall count, 0 < count -> same (MACLLog count).
Proof. exact (ACLLog_equiv F ff fpos). Qed.

(** ---- second batch of methods ---- *)
Theorem C42_ZPop_equiv : forall max key count, same (MZPop max key count).
Proof. exact (ZPop_equiv F ff fpos). Qed.

Theorem C42_ZRangePlain_equiv : forall rev ws key start stop, same (MZRangePlain rev ws key start stop).
Proof. exact (ZRangePlain_equiv F ff fpos). Qed.

Theorem C42_BPop_equiv : forall w timeout keys, same (MBPop w timeout keys).
Proof. exact (BPop_equiv F ff fpos). Qed.

Theorem C42_BRPopLPush_equiv : forall src dst timeout, same (MBRPopLPush src dst timeout).
Proof. exact (BRPopLPush_equiv F ff fpos). Qed.

Theorem C42_LMove_equiv : forall src dst srcpos dstpos, same (MLMove src dst srcpos dstpos).
Proof. exact (LMove_equiv F ff fpos). Qed.

Theorem C42_BLMove_equiv : forall src dst srcpos dstpos timeout, same (MBLMove src dst srcpos dstpos timeout).
Proof. exact (BLMove_equiv F ff fpos). Qed.

Theorem C42_XRangeCmd_equiv : forall rev stream a b count, same (MXRangeCmd rev stream a b count).
Proof. exact (XRangeCmd_equiv F ff fpos). Qed.

Theorem C42_XGroupCreate_equiv : forall mk stream group start, same (MXGroupCreate mk stream group start).
Proof. exact (XGroupCreate_equiv F ff fpos). Qed.

Theorem C42_XAck_equiv : forall stream group ids, same (MXAck stream group ids).
Proof. exact (XAck_equiv F ff fpos). Qed.

Theorem C42_XDel_equiv : forall stream ids, same (MXDel stream ids).
Proof. exact (XDel_equiv F ff fpos). Qed.

Theorem C42_Eval_equiv : forall w script keys args, same (MEval w script keys args).
Proof. exact (Eval_equiv F ff fpos). Qed.

Theorem C42_PopCount_equiv : forall w key count, same (MPopCount w key count).
Proof. exact (PopCount_equiv F ff fpos). Qed.

Theorem C42_ZRandMember_equiv : forall ws key count, same (MZRandMember ws key count).
Proof. exact (ZRandMember_equiv F ff fpos). Qed.

Theorem C42_InterCard_equiv : forall zset limit keys, same (MInterCard zset limit keys).
Proof. exact (InterCard_equiv F ff fpos). Qed.

Theorem C42_SlowLogGet_equiv : forall num, same (MSlowLogGet num).
Proof. exact (SlowLogGet_equiv F ff fpos). Qed.

Theorem C42_FunctionList_equiv : forall pattern withcode, same (MFunctionList pattern withcode).
Proof. exact (FunctionList_equiv F ff fpos). Qed.

(** ClientPause: as Migrate — the adapter prints seconds (formatSec) where go-redis and CLIENT PAUSE use milliseconds;
    TestPipeliner pins ["CLIENT","PAUSE","1"] for one second. *)
Theorem C42_ClientPause_characterised : forall dur, same (MClientPause dur) <-> a_format_sec dur = a_format_ms dur.
Proof. exact (ClientPause_iff F ff fpos). Qed.
Theorem C42_ClientPause_equiv_partial : forall dur, a_format_sec dur = a_format_ms dur -> same (MClientPause dur).
Proof. intros. apply C42_ClientPause_characterised. assumption. Qed.
Theorem C42_ClientPause_refuted : exists dur, ~ same (MClientPause dur).
Proof. exists 1000000000. intro H. apply C42_ClientPause_characterised in H. vm_compute in H. discriminate. Qed.

(** GeoDist: go-redis passes the unit through ("" = km); the adapter panics unless it is "", m, km, mi, ft in any letter
    case (adapter_test.go "should panic on invalid unit in GeoDist" pins it). *)
Theorem C42_GeoDist_equiv_partial : forall key m1 m2 unit, valid_unit unit -> same (MGeoDist key m1 m2 unit).
Proof. exact (GeoDist_equiv F ff fpos). Qed.
Theorem C42_GeoDist_characterised : forall key m1 m2 unit, same (MGeoDist key m1 m2 unit) <-> valid_unit unit.
Proof. exact (GeoDist_iff F ff fpos). Qed.
Theorem C42_GeoDist_refuted : exists key m1 m2 unit, ~ same (MGeoDist key m1 m2 unit).
Proof.
  exists (bs "k"), (bs "a"), (bs "b"), (bs "yd"). intro H. apply C42_GeoDist_characterised in H.
  destruct H as [H|[H|[H|[H|H]]]]; vm_compute in H; discriminate.
Qed.

(** ZMPop / BZMPop: as LMPop — claimed for count > 0. *)
Theorem C42_ZMPop_equiv_partial : forall order count keys, 0 < count -> same (MZMPop order count keys).
Proof. exact (ZMPop_equiv F ff fpos). Qed.
Theorem C42_BZMPop_equiv_partial : forall timeout order count keys, 0 < count -> same (MBZMPop timeout order count keys).
Proof. exact (BZMPop_equiv F ff fpos). Qed.

(** ---- every listed method, all arguments in the claimed domain ---- *)
Theorem C42_all_methods : forall c, in_domain F c -> same c.
Proof. exact (all_methods_equiv F ff fpos). Qed.

End C42.

Print Assumptions C42_Set_equiv.
Print Assumptions C42_SetEX_equiv.
Print Assumptions C42_SetNX_equiv.
Print Assumptions C42_SetXX_equiv.
Print Assumptions C42_Expire_equiv.
Print Assumptions C42_PExpire_equiv.
Print Assumptions C42_ExpireAt_equiv.
Print Assumptions C42_PExpireAt_equiv.
Print Assumptions C42_Copy_equiv.
Print Assumptions C42_Restore_equiv.
Print Assumptions C42_BitCount_equiv.
Print Assumptions C42_BitPos_equiv.
Print Assumptions C42_BitField_equiv.
Print Assumptions C42_MemoryUsage_equiv.
Print Assumptions C42_LPos_equiv.
Print Assumptions C42_LPosCount_equiv.
Print Assumptions C42_LInsertBA_equiv.
Print Assumptions C42_ZAdd_equiv.
Print Assumptions C42_ZAddArgs_equiv.
Print Assumptions C42_ZRangeBy_equiv.
Print Assumptions C42_ZStoreOp_equiv.
Print Assumptions C42_ZStoreTo_equiv.
Print Assumptions C42_ZDiff_equiv.
Print Assumptions C42_ZDiffStore_equiv.
Print Assumptions C42_XAdd_equiv.
Print Assumptions C42_XReadStreams_equiv.
Print Assumptions C42_XPendingExt_equiv.
Print Assumptions C42_XAutoClaim_equiv.
Print Assumptions C42_XTrim_equiv.
Print Assumptions C42_XInfoStreamFull_equiv.
Print Assumptions C42_GeoAdd_equiv.
Print Assumptions C42_GeoRadius_equiv.
Print Assumptions C42_GeoRadiusByMember_equiv.
Print Assumptions C42_GeoSearch_equiv.
Print Assumptions C42_GeoSearchLocation_equiv.
Print Assumptions C42_GeoSearchStore_equiv.
Print Assumptions C42_FunctionLoad_equiv.
Print Assumptions C42_ClientKillByFilter_equiv.
Print Assumptions C42_SetArgs_equiv_partial.
Print Assumptions C42_SetArgs_characterised.
Print Assumptions C42_SetArgs_refuted.
Print Assumptions C42_Sort_equiv_partial.
Print Assumptions C42_Sort_characterised.
Print Assumptions C42_Sort_refuted.
Print Assumptions C42_LInsert_equiv_partial.
Print Assumptions C42_LInsert_characterised.
Print Assumptions C42_LInsert_refuted.
Print Assumptions C42_Migrate_characterised.
Print Assumptions C42_Migrate_equiv_partial.
Print Assumptions C42_Migrate_refuted.
Print Assumptions C42_ZRangeArgs_equiv_partial.
Print Assumptions C42_ZRangeArgs_characterised.
Print Assumptions C42_ZRangeStore_equiv_partial.
Print Assumptions C42_ZRangeStore_characterised.
Print Assumptions C42_ZRangeArgs_refuted.
Print Assumptions C42_XRead_equiv_partial.
Print Assumptions C42_XRead_characterised.
Print Assumptions C42_XReadGroup_equiv_partial.
Print Assumptions C42_XReadGroup_characterised.
Print Assumptions C42_XClaim_equiv_partial.
Print Assumptions C42_XClaim_characterised.
Print Assumptions C42_XRead_refuted.
Print Assumptions C42_BitPosSpan_equiv_partial.
Print Assumptions C42_LMPop_equiv_partial.
Print Assumptions C42_BLMPop_equiv_partial.
Print Assumptions C42_all_methods.
Print Assumptions C42_ZPop_equiv.
Print Assumptions C42_ZRangePlain_equiv.
Print Assumptions C42_BPop_equiv.
Print Assumptions C42_BRPopLPush_equiv.
Print Assumptions C42_LMove_equiv.
Print Assumptions C42_BLMove_equiv.
Print Assumptions C42_XRangeCmd_equiv.
Print Assumptions C42_XGroupCreate_equiv.
Print Assumptions C42_XAck_equiv.
Print Assumptions C42_XDel_equiv.
Print Assumptions C42_Eval_equiv.
Print Assumptions C42_PopCount_equiv.
Print Assumptions C42_ZRandMember_equiv.
Print Assumptions C42_InterCard_equiv.
Print Assumptions C42_SlowLogGet_equiv.
Print Assumptions C42_FunctionList_equiv.
Print Assumptions C42_ClientPause_characterised.
Print Assumptions C42_ClientPause_equiv_partial.
Print Assumptions C42_ClientPause_refuted.
Print Assumptions C42_GeoDist_equiv_partial.
Print Assumptions C42_GeoDist_characterised.
Print Assumptions C42_GeoDist_refuted.
Print Assumptions C42_ZMPop_equiv_partial.
Print Assumptions C42_BZMPop_equiv_partial.
Print Assumptions C42_GetEx_equiv_partial.
Print Assumptions C42_GetEx_characterised.
Print Assumptions C42_GetEx_refuted.
Print Assumptions C42_Scan_equiv_partial.
Print Assumptions C42_ScanType_equiv_partial.
Print Assumptions C42_KScan_equiv_partial.
Print Assumptions C42_ACLLog_equiv_partial.

(** non-vacuity: with floats printed by the harness (F := bytes * bool), a ZADD with GT CH and two members
    (unbounded list instance) and a transaction-free SETNX with a sub-second TTL: both sides send a command and
    the normal forms are the concrete upper-case commands. *)
Example C42_nonvacuous_zadd :
  wire (CompatArgs.adapter (bytes * bool) fst snd
          (MZAddArgs true (bs "z") (mkZAdd false true false true true) [((bs "1.5", true), bs "a"); ((bs "-2", false), bs "b")])) =
  Some [K (bs "ZADD"); D (bs "z"); K (bs "XX"); K (bs "GT"); K (bs "CH"); K (bs "INCR"); D (bs "1.5"); D (bs "a"); D (bs "-2"); D (bs "b")]
  /\ in_domain (bytes * bool) (MZAddArgs true (bs "z") (mkZAdd false true false true true) [((bs "1.5", true), bs "a")]).
Proof. split; [vm_compute; reflexivity|exact I]. Qed.

Example C42_nonvacuous_setnx :
  wire (CompatArgs.adapter (bytes * bool) fst snd (MSetNX (bs "k") (AInt 7) 1500000000)) =
  Some [K (bs "SET"); D (bs "k"); D (bs "7"); K (bs "NX"); K (bs "PX"); D (bs "1500")]
  /\ wire (GoRedisSpec.goredis (bytes * bool) fst snd (MSetNX (bs "k") (AInt 7) 1500000000)) =
     Some [K (bs "SET"); D (bs "k"); D (bs "7"); K (bs "NX"); K (bs "PX"); D (bs "1500")].
Proof. split; vm_compute; reflexivity. Qed.
