(** C36 — Counting Bloom filters track multiplicities without false negatives.

    [size > 0], [k >= 1] (tested side condition, as for C35), any hash function.
    * no counter ever becomes negative — for ALL histories, including removals of items that were
      never added (the remove script's simulation + rollback);
    * the remove script is, item by item and in order, "remove if every one of the item's counters can
      pay for it, otherwise change nothing"; in particular a single failing Remove changes nothing;
    * if only present items are removed ([wf_hist]: at its turn, every removed key has positive net
      multiplicity), then every counter equals the number of (item, hash position) pairs that map to
      it, Count is the number of items, ItemMinCount(Multi) answers per key in order and never less
      than the key's net multiplicity (capped by MaxUint64, the initial value of Go's running minimum),
      and Exists(Multi) reports every item with positive multiplicity. *)
From Coq Require Import List NArith ZArith Bool.
Require Import RV.Model.Base RV.Model.Bloom RV.Model.CountingBloom RV.Proofs.CountingBloomProofs
               RV.Model.ScriptTexts RV.Gen.Scripts.
Import ListNotations.
Open Scope Z_scope.

Theorem C36_no_negative_counter : forall (K : Type) (hash : K -> N * N) (size k : N),
  (1 <= k)%N -> (0 < size)%N -> forall (ops : list (cop K)) (f : cfilter),
  (forall j, 0 <= getc (ctrs f) j) -> forall j, 0 <= getc (ctrs (crun K hash size k f ops)) j.
Proof. intros K hash size k Hk Hs ops f Hn. apply crun_nonneg; assumption. Qed.
Print Assumptions C36_no_negative_counter.

(** the script, characterised: sequential conditional removal (counters pointwise, and the total) *)
Theorem C36_remove_script_characterised : forall (chunks : list (list N)) (f : cfilter),
  (forall j, getc (ctrs (cremove_script chunks f)) j = getc (spec_loop chunks (ctrs f)) j) /\
  total (cremove_script chunks f) = total f - spec_removed chunks (ctrs f).
Proof. exact cremove_script_spec. Qed.
Print Assumptions C36_remove_script_characterised.

Theorem C36_failed_removal_changes_nothing : forall (K : Type) (hash : K -> N * N) (size k : N),
  (1 <= k)%N -> (0 < size)%N -> forall (f : cfilter) (x : K),
  (forall j, 0 <= getc (ctrs f) j) ->
  (exists j, getc (ctrs f) j < occ j (cindexes_of K hash size k x)) ->
  (forall j, getc (ctrs (fst (cstep K hash size k f (CRemove [x])))) j = getc (ctrs f) j) /\
  total (fst (cstep K hash size k f (CRemove [x]))) = total f.
Proof. intros K hash size k Hk Hs f x Hn Hex. apply failed_removal; assumption. Qed.
Print Assumptions C36_failed_removal_changes_nothing.

Theorem C36_successful_removal : forall (K : Type) (hash : K -> N * N) (size k : N),
  (1 <= k)%N -> (0 < size)%N -> forall (f : cfilter) (x : K),
  (forall j, 0 <= getc (ctrs f) j) ->
  (forall j, occ j (cindexes_of K hash size k x) <= getc (ctrs f) j) ->
  (forall j, getc (ctrs (fst (cstep K hash size k f (CRemove [x])))) j = getc (ctrs f) j - occ j (cindexes_of K hash size k x)) /\
  total (fst (cstep K hash size k f (CRemove [x]))) = total f - 1.
Proof. intros K hash size k Hk Hs f x Hn Hall. apply successful_removal; assumption. Qed.
Print Assumptions C36_successful_removal.

Theorem C36_multiplicity_lower_bound : forall (K : Type) (K_eqb : K -> K -> bool),
  (forall a b, K_eqb a b = true <-> a = b) ->
  forall (hash : K -> N * N) (size k : N), (1 <= k)%N -> (0 < size)%N ->
  forall (ops : list (cop K)), wf_hist K K_eqb [] ops ->
  let f := crun K hash size k empty_cfilter ops in
  let bag := bag_run K K_eqb [] ops in
  forall (x : K) (qs : list K),
    snd (cstep K hash size k f (CMinCount qs)) = WCounts (Ok (map (min_of K hash size k f) qs))
    /\ snd (cstep K hash size k f (CExists qs)) = WBools (Ok (map (fun q => 0 <? min_of K hash size k f q) qs))
    /\ Z.min (mult K K_eqb bag x) max_uint64 <= min_of K hash size k f x
    /\ (1 <= mult K K_eqb bag x -> (0 <? min_of K hash size k f x) = true)
    /\ total f = Z.of_nat (length bag)
    /\ (forall j, getc (ctrs f) j = bagsum K hash size k bag j).
Proof.
  intros K K_eqb Hspec hash size k Hk Hs ops Hwf f bag x qs.
  assert (HI : Inv K hash size k f bag) by (apply Inv_run; try assumption; apply Inv_empty).
  assert (Hn : forall j, 0 <= getc (ctrs f) j) by (eapply Inv_nonneg; eassumption).
  assert (Hm : Z.min (mult K K_eqb bag x) max_uint64 <= min_of K hash size k f x) by (apply Inv_min; assumption).
  split; [apply mincount_positional; assumption|].
  split; [apply cexists_positional; assumption|].
  split; [exact Hm|]. split.
  - intros H1. apply Z.ltb_lt. unfold max_uint64 in Hm.
    apply Z.lt_le_trans with (m := Z.min (mult K K_eqb bag x) 18446744073709551615); [|exact Hm].
    apply Z.min_glb_lt; [apply Z.lt_le_trans with (m := 1); [reflexivity|exact H1]|reflexivity].
  - destruct HI as [Hc Ht]. split; [exact Ht|exact Hc].
Qed.
Print Assumptions C36_multiplicity_lower_bound.

Theorem C36_scripts_pinned :
  rueidisprob_countingBloomFilterAddMultiScript = pin_rueidisprob_countingBloomFilterAddMultiScript /\
  rueidisprob_countingBloomFilterRemoveMultiScript = pin_rueidisprob_countingBloomFilterRemoveMultiScript /\
  rueidisprob_countingBloomFilterDeleteScript = pin_rueidisprob_countingBloomFilterDeleteScript.
Proof. repeat split; vm_compute; reflexivity. Qed.
Print Assumptions C36_scripts_pinned.

(** non-vacuity: a well-formed history with a duplicate add, a multi-removal, colliding indexes; and a
    history with a failing removal (item 9 was never added) that leaves the counters alone *)
Example C36_nonvacuous :
  let hash := fun x : N => (x * 3, x + 1)%N in
  let ops := [CAdd [1; 2; 1]%N; CRemove [1]%N; CAdd [5]%N; CRemove [2; 5]%N] in
  wf_hist N N.eqb [] ops
  /\ bag_run N N.eqb [] ops = [1]%N
  /\ snd (cstep N hash 7 2 (crun N hash 7 2 empty_cfilter ops) (CMinCount [1; 2]%N)) = WCounts (Ok [1; 0])
  /\ total (crun N hash 7 2 empty_cfilter ops) = 1
  /\ (let f := crun N hash 7 2 empty_cfilter [CAdd [1]%N] in
      map (getc (ctrs (fst (cstep N hash 7 2 f (CRemove [9]%N))))) [0; 1; 2; 3; 4; 5; 6]%N = map (getc (ctrs f)) [0; 1; 2; 3; 4; 5; 6]%N).
Proof. vm_compute. repeat split; auto. Qed.
