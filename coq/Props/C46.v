(** C46 — Scanner iterates every page element in order.

    Quantifier: all page sequences (a script of answers of the [next] callback, of any length, any
    mix of successful pages / errors / cursor values; past its end the callback fails) and all
    consumer stop points ([None] = never stops, [Some k] = says stop on yield number k+1).

    [live script] are the pages a consumer that never stops gets to see (up to and including the
    first page that fails or carries cursor 0); [take b l] is what a consumer with stop point [b]
    receives from the stream [l]; [stopped b l] tells whether it said stop. *)
From Coq Require Import String List NArith Bool.
Require Import RV.Model.Base RV.Model.Scanner RV.Proofs.ScannerProofs.
Import ListNotations.
Open Scope N_scope.

(** Iter yields every element of every page, in order, until the consumer stops. *)
Theorem C46_iter_yields : forall script b,
  yielded (iter script b) = take b (concat (map elems (live script))).
Proof. exact iter_yielded. Qed.
Print Assumptions C46_iter_yields.

(** The scan starts at cursor 0 and follows the returned cursors; it makes exactly the calls it
    needs: after [n] pages that all let it continue (successful, non-zero cursor, consumer not yet
    stopped) the next call is the last one (it fails, returns cursor 0, or the consumer stops in it). *)
Theorem C46_iter_cursors : forall script b,
  exists n : nat,
    cursors (iter script b) = firstn (S n) (0 :: map cursor_of script) /\
    (n <= length script)%nat /\
    Forall passes (firstn n script) /\
    stopped b (concat (map elems (firstn n script))) = false /\
    match nth_error script n with
    | None => True
    | Some (PErr _) => True
    | Some (POk vs c) => c = 0 \/ stopped b (concat (map elems (firstn (S n) script))) = true
    end.
Proof.
  intros script b. destruct (scan_cursors (fun vs => vs) script 0 b) as (n & H1 & H2 & H3 & H4 & H5).
  exists n. rewrite !items_id in *. auto.
Qed.
Print Assumptions C46_iter_cursors.

(** Err(): nil when the consumer stopped, otherwise the error of the failing page (nil when the
    scan ended with cursor 0). *)
Theorem C46_iter_err : forall script b,
  err (iter script b) = if stopped b (concat (map elems (live script))) then None else final_err script.
Proof. exact iter_err. Qed.
Print Assumptions C46_iter_err.

(** A scan allowed to finish: all elements of all pages up to the page with cursor 0, no error,
    cursors requested = 0 followed by the returned ones; pages after cursor 0 are never requested. *)
Theorem C46_iter_complete : forall pre vs post,
  Forall passes pre ->
  yielded (iter (pre ++ POk vs 0 :: post) None) = concat (map elems pre) ++ vs /\
  err (iter (pre ++ POk vs 0 :: post) None) = None /\
  cursors (iter (pre ++ POk vs 0 :: post) None) = 0 :: map cursor_of pre.
Proof. exact iter_complete. Qed.
Print Assumptions C46_iter_complete.

(** A failing page stops the scan and is exposed through Err (consumer that never stops). *)
Theorem C46_iter_error_stops : forall pre e post,
  Forall passes pre ->
  yielded (iter (pre ++ PErr e :: post) None) = concat (map elems pre) /\
  err (iter (pre ++ PErr e :: post) None) = Some e.
Proof.
  intros pre e post Hp.
  assert (L : live (pre ++ PErr e :: post) = pre ++ [PErr e]).
  { induction Hp as [|p r (vs' & c & -> & Hc) _ IH]; [reflexivity|].
    cbn [app live]. apply N.eqb_neq in Hc. rewrite Hc, IH. reflexivity. }
  assert (F : final_err (pre ++ PErr e :: post) = Some e).
  { clear L. induction Hp as [|p r (vs' & c & -> & Hc) _ IH]; [reflexivity|].
    cbn [app final_err]. apply N.eqb_neq in Hc. rewrite Hc. exact IH. }
  rewrite iter_yielded, iter_err, L, F. cbn [take stopped].
  rewrite map_app, concat_app. cbn [map concat elems]. now rewrite app_nil_r.
Qed.
Print Assumptions C46_iter_error_stops.

(** Iter2 yields the consecutive pairs of every page (a trailing odd element of a page is skipped,
    as in the loop [for i := 0; i+1 < len(vs); i += 2]). *)
Theorem C46_iter2_yields : forall script b,
  yielded (iter2 script b) = take b (concat (map (fun p => pairs_of (elems p)) (live script))).
Proof. exact iter2_yielded. Qed.
Print Assumptions C46_iter2_yields.

Theorem C46_iter2_err : forall script b,
  err (iter2 script b) =
  if stopped b (concat (map (fun p => pairs_of (elems p)) (live script))) then None else final_err script.
Proof. exact iter2_err. Qed.
Print Assumptions C46_iter2_err.

(** [pairs_of] really is "consecutive pairs": pair i is (vs[2i], vs[2i+1]), there are len/2 of them. *)
Theorem C46_pairs_consecutive : forall (vs : list bytes) i,
  length (pairs_of vs) = Nat.div2 (length vs) /\
  ((i < Nat.div2 (length vs))%nat -> nth_error (pairs_of vs) i = Some (nth (2 * i) vs [], nth (2 * i + 1) vs [])).
Proof. intros vs i. split; [apply pairs_of_length|apply pairs_of_nth]. Qed.
Print Assumptions C46_pairs_consecutive.

(** non-vacuity: a three page scan with an empty page, a consumer stopping in the second page,
    an error after two pages, and Iter2 on an odd page *)
Example C46_nonvacuous_complete :
  iter [POk [h "61"%string; h "62"%string] 7; POk [] 9; POk [h "63"%string] 0; POk [h "64"%string] 0] None =
  mkOut [h "61"%string; h "62"%string; h "63"%string] [0; 7; 9] None.
Proof. vm_compute. reflexivity. Qed.

Example C46_nonvacuous_stop :
  iter [POk [h "61"%string; h "62"%string] 7; POk [h "63"%string; h "64"%string] 9; PErr 3] (Some 2%nat) =
  mkOut [h "61"%string; h "62"%string; h "63"%string] [0; 7] None.
Proof. vm_compute. reflexivity. Qed.

Example C46_nonvacuous_error :
  iter [POk [h "61"%string] 7; PErr 3; POk [h "62"%string] 0] None = mkOut [h "61"%string] [0; 7] (Some 3).
Proof. vm_compute. reflexivity. Qed.

Example C46_nonvacuous_iter2 :
  iter2 [POk [h "61"%string; h "62"%string; h "63"%string] 5; POk [h "64"%string; h "65"%string] 0] None =
  mkOut [(h "61"%string, h "62"%string); (h "64"%string, h "65"%string)] [0; 5] None.
Proof. vm_compute. reflexivity. Qed.
