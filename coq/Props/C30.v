(** C30 — Lua scripts run at most once per Exec.

    The model (Model/LuaExec.v) is Lua.Exec / Lua.ExecMulti against one node whose script cache can be
    flushed before any command and whose commands can fail before or after execution, with a script
    body that may reply anything (value or error).  [consistent o known] says that the Lua value is one
    the constructors can build (NoSha constructors take no options; a value without SHA-1 is NoSha or
    LoadSHA1).  All theorems hold for every environment ([envq]: an arbitrary list of per-command
    events, quiet when exhausted), every cache state and every earlier history ([x] is arbitrary).

    FULL STATEMENT of the first claim (not provable, the faithful model refutes it):
      forall o x tag, exists l, runs after (exec o x tag) = runs x ++ l /\ (l = [] \/ l = [tag]).
    It fails exactly through scripts whose OWN reply is an ERROR starting with "NOSCRIPT" (after an
    optional "ERR "): the client classifies error replies by that prefix (RedisError.IsNoScript), so an
    EVALSHA that ran such a body is followed by EVAL, which runs the body again.  The kind of a reply is
    explicit in the model: a NON-error reply (status, bulk, integer, array) whose text starts with
    NOSCRIPT never triggers the fallback ([C30_non_error_reply_never_falls_back]); the hypothesis of
    [C30_at_most_once_partial] excludes error bodies only, so such scripts run at most once.  Proved instead: [C30_at_most_once_refuted] (witness),
    [C30_at_most_once_characterised] (never more than twice; twice only if an un-faulted command's body
    replied NOSCRIPT) and [C30_at_most_once_partial] (at most once when no body replies NOSCRIPT — every
    script that does not fabricate that error, whatever the cache/fault behaviour). *)
From Coq Require Import List NArith Bool.
Require Import RV.Model.Base RV.Model.LuaExec RV.Proofs.LuaExecProofs.
Import ListNotations.
Open Scope N_scope.

Theorem C30_at_most_once_partial : forall (o : opts) (x : xstate) (tag : N),
  (forall e, In e (envq x) -> body e <> BErr ENoScript) ->
  exists l, runs (server (fst (exec o x tag))) = runs (server x) ++ l /\ (l = [] \/ l = [tag]).
Proof. exact exec_at_most_once. Qed.
Print Assumptions C30_at_most_once_partial.

Theorem C30_at_most_once_refuted : exists (o : opts) (x : xstate) (tag : N),
  runs (server (fst (exec o x tag))) = runs (server x) ++ [tag; tag].
Proof.
  exists {| readonly := false; nosha := false; loadsha := false |},
         (init {| readonly := false; nosha := false; loadsha := false |} true
               [{| flush_before := false; flt := FNone; body := BErr ENoScript |}]), 7.
  vm_compute. reflexivity.
Qed.
Print Assumptions C30_at_most_once_refuted.

(** never more than twice, and twice ONLY via an un-faulted body whose reply is an ERROR with the NOSCRIPT prefix *)
Theorem C30_at_most_once_characterised : forall (o : opts) (x : xstate) (tag : N),
  exists l, runs (server (fst (exec o x tag))) = runs (server x) ++ l /\
    (l = [] \/ l = [tag] \/ l = [tag; tag]) /\
    (l = [tag; tag] -> exists e, In e (envq x) /\ body e = BErr ENoScript /\ flt e = FNone).
Proof.
  intros o x tag. destruct (exec_runs_bound o x tag) as [l [Hl Hc]]. exists l. split; [exact Hl|]. split; [exact Hc|].
  intros H2. exact (exec_twice_only_if o x tag l Hl H2).
Qed.
Print Assumptions C30_at_most_once_characterised.

(** the fallback test is "an ERROR reply with the NOSCRIPT prefix", nothing else *)
Theorem C30_noscript_is_an_error_reply : forall r, is_noscript r = true -> r = RErr ENoScript.
Proof. intros [v k|[]]; cbn; intros H; try discriminate; reflexivity. Qed.
Print Assumptions C30_noscript_is_an_error_reply.

(** a non-error reply to EVALSHA / EVALSHA_RO — whatever its text, "NOSCRIPT …" included — ends the call: no EVAL
    is sent, so the body does not run again *)
Theorem C30_non_error_reply_never_falls_back : forall (o : opts) (x : xstate) (tag : N), consistent o (known x) = true ->
  exists added, trace (fst (exec o x tag)) = trace x ++ added /\
    (forall p, In p added -> is_sha (fst (fst p)) = true -> is_ok (snd p) = true ->
       forall q, In q added -> fst (fst q) <> eval_cmd o).
Proof.
  intros o x tag Hc. destruct (exec_facts o x tag Hc) as [added [Ht Hf]]. exists added. split; [exact Ht|].
  unfold facts_b in Hf. apply andb_prop in Hf. destruct Hf as [_ Hf].
  intros p Hp Hs Hok q Hq Heq.
  assert (H1 : existsb (fun p => is_sha (ckind p) && is_ok (crep p)) added = true).
  { apply existsb_exists. exists p. split; [exact Hp|]. unfold ckind, crep. rewrite Hs, Hok. reflexivity. }
  assert (H2 : existsb (fun p => cmdk_eqb (ckind p) (eval_cmd o)) added = true).
  { apply existsb_exists. exists q. split; [exact Hq|]. unfold ckind. rewrite Heq. destruct (eval_cmd o); reflexivity. }
  rewrite H1, H2 in Hf. discriminate.
Qed.
Print Assumptions C30_non_error_reply_never_falls_back.

(** the decision tree: the commands one Exec sends form  [SCRIPT LOAD]? (EVAL | EVALSHA | EVALSHA EVAL),
    EVAL follows EVALSHA only after a NOSCRIPT reply, SCRIPT LOAD is sent iff LoadSHA1 is on and the SHA-1 is
    still unknown, a failed load ends the call with that error; all commands carry this call's keys/args *)
Theorem C30_decision_tree : forall (o : opts) (x : xstate) (tag : N), consistent o (known x) = true ->
  exists added, trace (fst (exec o x tag)) = trace x ++ added /\
    shape_b o (known x) tag added (snd (exec o x tag)) (known (fst (exec o x tag))) = true.
Proof.
  intros o x tag Hc. destruct (exec_facts o x tag Hc) as [added [Ht Hf]]. exists added. split; [exact Ht|].
  unfold facts_b in Hf. repeat (apply andb_prop in Hf; destruct Hf as [Hf _]). exact Hf.
Qed.
Print Assumptions C30_decision_tree.

Theorem C30_nosha : forall (o : opts) (x : xstate) (tag : N), consistent o (known x) = true -> nosha o = true ->
  exists added, trace (fst (exec o x tag)) = trace x ++ added /\
    Forall (fun p => fst (fst p) = eval_cmd o) added.
Proof.
  intros o x tag Hc Hn. destruct (exec_facts o x tag Hc) as [added [Ht Hf]]. exists added. split; [exact Ht|].
  unfold facts_b in Hf. repeat (apply andb_prop in Hf; destruct Hf as [Hf ?]).
  rewrite Hn in *. cbn [negb orb] in *. apply Forall_forall. intros p Hp.
  match goal with H : forallb (fun p => cmdk_eqb (ckind p) (eval_cmd o)) added = true |- _ =>
    rewrite forallb_forall in H; specialize (H p Hp) end.
  unfold ckind in *. destruct (fst (fst p)), (eval_cmd o); try discriminate; reflexivity.
Qed.
Print Assumptions C30_nosha.

Theorem C30_ro_only : forall (o : opts) (x : xstate) (tag : N), consistent o (known x) = true ->
  exists added, trace (fst (exec o x tag)) = trace x ++ added /\
    Forall (fun p => is_load (fst (fst p)) = false -> is_ro (fst (fst p)) = readonly o) added.
Proof.
  intros o x tag Hc. destruct (exec_facts o x tag Hc) as [added [Ht Hf]]. exists added. split; [exact Ht|].
  unfold facts_b in Hf. repeat (apply andb_prop in Hf; destruct Hf as [Hf ?]).
  apply Forall_forall. intros p Hp Hl.
  match goal with H : forallb (fun p => is_load (ckind p) || Bool.eqb (is_ro (ckind p)) (readonly o)) added = true |- _ =>
    rewrite forallb_forall in H; specialize (H p Hp) end.
  unfold ckind in *. rewrite Hl in *. cbn [orb] in *. apply eqb_prop. assumption.
Qed.
Print Assumptions C30_ro_only.

(** retry class: every command one Exec issues carries the retryable tag [issue_flag] assigns to its kind — a function
    of the script's constructor and the command kind only.  In particular the EVAL / EVAL_RO sent after a NOSCRIPT
    reply has exactly the class of the EVALSHA / EVALSHA_RO before it (the script's class, no class of its own), and
    for a script that is neither retryable nor read-only no EVAL-family command may be re-sent by the client's retry
    loop — so a lost reply of the fallback EVAL cannot make the body run again. *)
Theorem C30_fallback_keeps_retry_class : forall (o : opts) (rt : bool),
  issue_flag rt (eval_cmd o) = issue_flag rt (sha_cmd o)
  /\ (rt = false -> readonly o = false ->
      resend_allowed rt (eval_cmd o) = false /\ resend_allowed rt (sha_cmd o) = false)
  /\ forall (x : xstate) (tag : N), consistent o (known x) = true ->
      exists added, trace (fst (exec o x tag)) = trace x ++ added /\
        Forall (fun p => is_load (fst (fst p)) = false ->
                  issue_flag rt (fst (fst p)) = (rt || readonly o)) added.
Proof.
  intros o rt. split; [destruct o as [[] ns ls]; reflexivity|]. split.
  - intros -> Hro. destruct o as [ro ns ls]. cbn in Hro. subst ro. split; reflexivity.
  - intros x tag Hc. destruct (C30_ro_only o x tag Hc) as [added [Ht Hall]]. exists added. split; [exact Ht|].
    apply Forall_forall. intros p Hp Hl. rewrite Forall_forall in Hall. specialize (Hall p Hp Hl).
    destruct (fst (fst p)), (readonly o), rt; cbn in *; try discriminate; reflexivity.
Qed.
Print Assumptions C30_fallback_keeps_retry_class.


(** WithLoadSHA1: over any history of Exec/ExecMulti from a fresh Lua value, the SHA-1 is known exactly
    when some SCRIPT LOAD has succeeded, it stays known, and an Exec sends SCRIPT LOAD iff it is unknown —
    so Exec asks for the SHA-1 only until the first success *)
Theorem C30_load_until_success : forall (o : opts) (cached0 : bool) (env : list env_step) (ps : list lop),
  loadsha o = true -> nosha o = false ->
  let x := fst (lrun o (init o cached0 env) ps) in
  known x = existsb load_ok (trace x)
  /\ (forall ps', known x = true -> known (fst (lrun o x ps')) = true)
  /\ (forall tag, exists added, trace (fst (exec o x tag)) = trace x ++ added /\
        (existsb (fun p => is_load (fst (fst p))) added = negb (known x))).
Proof.
  intros o cached0 env ps Hls Hn x.
  assert (Hc0 : consistent o (known (init o cached0 env)) = true).
  { unfold consistent, init, sha_initially. cbn [known]. rewrite Hls, Hn. reflexivity. }
  assert (Hi0 : known (init o cached0 env) = existsb load_ok (trace (init o cached0 env))).
  { unfold init, sha_initially. cbn [known trace existsb]. rewrite Hls, Hn. reflexivity. }
  pose proof (lrun_known o ps (init o cached0 env) Hc0 Hls Hi0) as [Hc [Hk _]]. fold x in Hc, Hk.
  split; [exact Hk|]. split.
  - intros ps' Hx. exact (proj2 (proj2 (lrun_known o ps' x Hc Hls Hk)) Hx).
  - intros tag. destruct (exec_facts o x tag Hc) as [added [Ht Hf]]. exists added. split; [exact Ht|].
    unfold facts_b in Hf. repeat (apply andb_prop in Hf; destruct Hf as [Hf ?]).
    unfold shape_b in Hf. rewrite Hls in Hf. cbn [andb] in Hf.
    destruct (known x) eqn:Ek; cbn [negb orb] in *.
    + match goal with H : forallb (fun p => negb (is_load (ckind p))) added = true |- _ => clear - H; induction added as [|p r IH];
        [reflexivity|cbn [forallb existsb] in *; apply andb_prop in H; destruct H as [H1 H2]; unfold ckind in H1;
         destruct (is_load (fst (fst p))); [discriminate|exact (IH H2)]] end.
    + destruct added as [|p r]; [discriminate|]. apply andb_prop in Hf. destruct Hf as [Hf _].
      unfold is_cmd, ckind in Hf. apply andb_prop in Hf. destruct Hf as [Hf _].
      cbn [existsb]. destruct (fst (fst p)); try discriminate. reflexivity.
Qed.
Print Assumptions C30_load_until_success.

(** ExecMulti: one result per LuaExec, in order (the i-th result is the reply to the command that carries the
    i-th LuaExec's keys and args); every body runs at most once and in order; a failed SCRIPT LOAD gives
    every LuaExec that error and runs nothing; NoSha scripts use EVAL only, the others EVALSHA after SCRIPT LOAD *)
Theorem C30_multi_positional : forall (o : opts) (x : xstate) (tags : list N), consistent o (known x) = true ->
  let x' := fst (exec_multi o x tags) in
  let rs := snd (exec_multi o x tags) in
  length rs = length tags /\
  ((exists r, nosha o = false /\ is_ok r = false /\ trace x' = trace x ++ [(CScriptLoad, 0, r)] /\
              rs = map (fun _ => r) tags /\ runs (server x') = runs (server x) /\ known x' = known x)
   \/
   (exists pre c,
      ((nosha o = true /\ pre = [] /\ c = eval_cmd o /\ known x' = known x) \/
       (nosha o = false /\ c = sha_cmd o /\ known x' = true /\ exists r, is_ok r = true /\ pre = [(CScriptLoad, 0, r)])) /\
      trace x' = trace x ++ pre ++ map (fun p => (c, fst p, snd p)) (combine tags rs) /\
      exists l, runs (server x') = runs (server x) ++ l /\ subseq l tags)).
Proof. exact exec_multi_spec. Qed.
Print Assumptions C30_multi_positional.

(** non-vacuity of the new distinction: a cached script whose SUCCESSFUL reply is the text "NOSCRIPT …" runs once,
    one EVALSHA is sent, and the caller gets that text *)
Example C30_nonvacuous_text :
  let o := {| readonly := false; nosha := false; loadsha := false |} in
  let x := init o true [{| flush_before := false; flt := FNone; body := BRet KNoScriptText |}] in
  map fst (trace (fst (exec o x 5))) = [(CEvalsha, 5)] /\ runs (server (fst (exec o x 5))) = [5]
  /\ snd (exec o x 5) = ROk 5 KNoScriptText.
Proof. vm_compute. repeat split; reflexivity. Qed.

(** non-vacuity: NOSCRIPT fallback after a flush, a LoadSHA1 history with a failing first load, ExecMulti *)
Example C30_nonvacuous :
  let o := {| readonly := false; nosha := false; loadsha := false |} in
  let x := init o true [{| flush_before := true; flt := FNone; body := BRet KPlain |}] in
  map fst (trace (fst (exec o x 5))) = [(CEvalsha, 5); (CEval, 5)] /\ runs (server (fst (exec o x 5))) = [5]
  /\
  (let o2 := {| readonly := true; nosha := false; loadsha := true |} in
   let env := [{| flush_before := false; flt := FReject ERedis; body := BRet KPlain |}] in
   let '(x2, vs) := lrun o2 (init o2 false env) [LExec 1; LExec 2; LMulti [3; 4]; LExec 5] in
   map fst (trace x2) = [(CScriptLoad, 0); (CScriptLoad, 0); (CEvalshaRo, 2); (CScriptLoad, 0); (CEvalshaRo, 3); (CEvalshaRo, 4); (CEvalshaRo, 5)]
   /\ vs = [OOne (RErr ERedis); OOne (ROk 2 KPlain); OMany [ROk 3 KPlain; ROk 4 KPlain]; OOne (ROk 5 KPlain)] /\ runs (server x2) = [2; 3; 4; 5]).
Proof. vm_compute. repeat split; reflexivity. Qed.
