(** C31 - Multi-key helpers map every key to its own reply.

    MGet, MGetCache, JsonMGet, JsonMGetCache, MSet, MSetNX, MDel and JsonMSet return a map whose keys are
    exactly the input keys and whose entry for each key is that key's reply or error, for any key set,
    duplicates and slot distribution, on single, standalone, sentinel ([cluster = false]) and cluster
    ([cluster = true]) clients.

    Model: RV.Model.Helpers (helper.go; internal/cmds slot-grouping builders).  The server [srv] and the
    slot function [slot_of] are universally quantified.  Helpers that range over a Go map take the pairs as
    a list in iteration order; the theorems hold for every list with distinct keys, i.e. every order.
    A Go map result is an association list; [maps_exactly m ks f]: [m] binds exactly the keys [ks], each
    [k] to [f k].  MGetCache / JsonMGetCache are [C31_cache_helpers] on top of C11 (positional DoMultiCache).
    Assumption on the server, explicit below: MGET / JSON.MGET are answered with one element per key in
    order ([get k] is the element for [k]). *)
From Coq Require Import String Ascii.
From Coq Require Import List Arith NArith ZArith Bool Lia.
Require Import RV.Model.Base RV.Model.CacheBatch RV.Model.Helpers.
Require Import RV.Proofs.CacheBatchHelper RV.Proofs.HelpersProofs RV.Proofs.HelpersTop RV.Proofs.CacheBatchTop.
Import ListNotations.
Open Scope nat_scope.

(** MGet: keys exact, every key bound to its own element - single and cluster clients, any duplicates,
    any slot distribution *)
Theorem C31_mget :
  forall (srv : argv -> msg) (slot_of : key -> N) (get : key -> msg) (cluster : bool) (keys : list key),
    (forall ks, srv (bs "MGET" :: ks) = arr (map get ks)) ->
    exists m, mget srv cluster slot_of keys = Ok (inl m) /\ maps_exactly m keys get.
Proof. exact mget_top. Qed.
Print Assumptions C31_mget.

Theorem C31_keys :
  forall srv slot_of get cluster keys,
    (forall ks, srv (bs "MGET" :: ks) = arr (map get ks)) ->
    exists m, mget srv cluster slot_of keys = Ok (inl m) /\ forall k, kv_get k m <> None <-> In k keys.
Proof.
  intros srv slot_of get cluster keys H. destruct (mget_top srv slot_of get cluster keys H) as (m & Hm & H1 & H2).
  exists m. split; [assumption|]. intro k. split.
  - intro Hn. destruct (in_dec key_dec k keys); [assumption|]. now rewrite H2 in Hn.
  - intros Hi. now rewrite H1.
Qed.
Print Assumptions C31_keys.

Theorem C31_values :
  forall srv slot_of get cluster keys,
    (forall ks, srv (bs "MGET" :: ks) = arr (map get ks)) ->
    exists m, mget srv cluster slot_of keys = Ok (inl m) /\ forall k, In k keys -> kv_get k m = Some (get k).
Proof.
  intros srv slot_of get cluster keys H. destruct (mget_top srv slot_of get cluster keys H) as (m & Hm & H1 & H2). eauto.
Qed.
Print Assumptions C31_values.

(** JsonMGet: the path is the last word of every command *)
Theorem C31_json_mget :
  forall (srv : argv -> msg) (slot_of : key -> N) (get : key -> msg) (cluster : bool) (keys : list key) (path : bytes),
    (forall ks, srv ((bs "JSON.MGET" :: ks) ++ [path]) = arr (map get ks)) ->
    exists m, json_mget srv cluster slot_of keys path = Ok (inl m) /\ maps_exactly m keys get.
Proof. exact json_mget_top. Qed.
Print Assumptions C31_json_mget.

(** a failing MGET on a single client: the error, no map *)
Theorem C31_mget_error :
  forall srv slot_of keys e,
    keys <> [] -> msg_error (srv (bs "MGET" :: keys)) = Some e ->
    m_typ (srv (bs "MGET" :: keys)) <> tArr -> m_typ (srv (bs "MGET" :: keys)) <> tSet ->
    mget srv false slot_of keys = Ok (inr e).
Proof. exact mget_error_top. Qed.
Print Assumptions C31_mget_error.

(** MSet / MSetNX: for every iteration order of the Go map (any list with distinct keys) *)
Theorem C31_mset :
  forall (srv : argv -> msg) (cluster nx : bool) (kvs : list (key * bytes)),
    NoDup (map fst kvs) ->
    exists m, mset srv cluster nx kvs = Ok m /\
      (forall kv, In kv kvs ->
         kv_get (fst kv) m = Some (if cluster then msg_error (srv (set_cmd nx kv)) else mset_err srv nx kvs)) /\
      (forall k, ~ In k (map fst kvs) -> kv_get k m = None).
Proof. exact mset_top. Qed.
Print Assumptions C31_mset.

(** MDel, duplicates allowed *)
Theorem C31_mdel :
  forall (srv : argv -> msg) (cluster : bool) (keys : list key),
    exists m, mdel srv cluster keys = Ok m /\
      (forall k, In k keys ->
         kv_get k m = Some (msg_error (srv (if cluster then [bs "DEL"; k] else bs "DEL" :: keys)))) /\
      (forall k, ~ In k keys -> kv_get k m = None).
Proof. exact mdel_top. Qed.
Print Assumptions C31_mdel.

Theorem C31_json_mset :
  forall (srv : argv -> msg) (cluster : bool) (kvs : list (key * bytes)) (path : bytes),
    NoDup (map fst kvs) ->
    exists m, json_mset srv cluster kvs path = Ok m /\
      (forall kv, In kv kvs ->
         kv_get (fst kv) m = Some (msg_error (srv (if cluster then [bs "JSON.SET"; fst kv; path; snd kv]
                                                   else bs "JSON.MSET" :: flat_map (fun kv => [fst kv; path; snd kv]) kvs)))) /\
      (forall k, ~ In k (map fst kvs) -> kv_get k m = None).
Proof. exact json_mset_top. Qed.
Print Assumptions C31_json_mset.

(** MGetCache / JsonMGetCache: the map built from positional DoMultiCache results (C11) *)
Theorem C31_cache_helpers :
  forall (f : key -> msg) (keys : list key) (resps : list rres),
    Forall2 (fun k r => r_err r = None /\ r_val r = f k) keys resps ->
    exists m, helper_do_multi_cache keys resps [] = Ok (inl m) /\ maps_exactly m keys f.
Proof. exact helper_keys. Qed.
Print Assumptions C31_cache_helpers.

(** arrayToKV *)
Theorem C31_array_to_kv :
  forall (f : key -> msg) (keys : list key), exists m, array_to_kv [] (map f keys) keys = Ok m /\ maps_exactly m keys f.
Proof. exact array_to_kv_top. Qed.
Print Assumptions C31_array_to_kv.

(** slot grouping: the command of slot s holds exactly the keys (pairs) of slot s, in input order, with
    their multiplicities; all keys of a command built by clusterMGet share one slot *)
Theorem C31_slot_groups :
  forall (slot_of : key -> N) (head : bytes) (keys : list key),
    NoDup (map fst (slot_mcmds slot_of head keys)) /\
    forall s, assoc_N s (slot_mcmds slot_of head keys)
              = if existsb (in_slot slot_of s) keys then Some (head :: filter (in_slot slot_of s) keys) else None.
Proof. exact slot_mcmds_top. Qed.
Print Assumptions C31_slot_groups.

Theorem C31_slot_groups_pairs :
  forall slot_of head kvs s,
    assoc_N s (slot_msets slot_of head kvs)
    = if existsb (pair_in_slot slot_of s) kvs
      then Some (head :: flat_map (fun kv => [fst kv; snd kv]) (filter (pair_in_slot slot_of s) kvs)) else None.
Proof. exact slot_msets_top. Qed.
Print Assumptions C31_slot_groups_pairs.

Theorem C31_slot_groups_json :
  forall slot_of keys kvs path s,
    assoc_N s (json_mgets slot_of keys path)
    = (if existsb (in_slot slot_of s) keys then Some ((bs "JSON.MGET" :: filter (in_slot slot_of s) keys) ++ [path]) else None) /\
    assoc_N s (json_msets slot_of kvs path)
    = (if existsb (pair_in_slot slot_of s) kvs
       then Some (bs "JSON.MSET" :: flat_map (fun kv => [fst kv; path; snd kv]) (filter (pair_in_slot slot_of s) kvs)) else None).
Proof. intros. split; [apply json_mgets_top|apply json_msets_top]. Qed.
Print Assumptions C31_slot_groups_json.

Theorem C31_group_same_slot :
  forall slot_of head keys cmds,
    group_by_slot slot_of head keys = Ok cmds ->
    forall c, In c cmds -> exists s, forall k, In k (tl c) -> slot_of k = s.
Proof. exact group_same_slot_top. Qed.
Print Assumptions C31_group_same_slot.

(** DecodeSliceOfJSON: element i of the destination is the decoding of element i (zero value for nil) *)
Theorem C31_decode_positional :
  forall (T : Type) (zero : T) (dec : msg -> T + err) (vs : list msg) (ts : list T),
    decode_elems T zero dec vs = inl ts -> Forall2 (elem_ok T zero dec) vs ts.
Proof. exact decode_elems_positional. Qed.
Print Assumptions C31_decode_positional.

(** ** non-vacuity *)
Definition nv_get (k : key) : msg := Msg tStr (bs "v:" ++ k) 0%Z [].
Definition nv_srv (a : argv) : msg :=
  match a with
  | c :: ks => if bytes_eqb c (bs "MGET") then arr (map nv_get ks) else simple "OK"
  | [] => simple "OK"
  end.
Definition nv_slot (k : key) : N := match k with c :: _ => N.modulo c 3 | [] => 0%N end.

Example C31_nonvacuous_hyp : forall ks, nv_srv (bs "MGET" :: ks) = arr (map nv_get ks).
Proof. intro ks. reflexivity. Qed.

Example C31_nonvacuous :
  cluster_mget nv_srv nv_slot [bs "a"; bs "b"; bs "c"; bs "a"; bs "d"; bs "e"]
  = Ok (inl [(bs "a", nv_get (bs "a")); (bs "d", nv_get (bs "d")); (bs "b", nv_get (bs "b")); (bs "e", nv_get (bs "e"));
             (bs "c", nv_get (bs "c"))]).
Proof. vm_compute. reflexivity. Qed.

Example C31_nonvacuous_mset :
  mset nv_srv true true [(bs "k1", bs "x"); (bs "k2", bs "y")] = Ok [(bs "k1", None); (bs "k2", None)].
Proof. vm_compute. reflexivity. Qed.
