(** C14 — Commands are written as RESP arrays that decode to the same argv.

    [write_cmd] transcribes resp.go writeCmd/writeB/writeN; [parse_cmd]/[parse_stream] is an
    independent server-side parser of RESP command frames (arrays of bulk strings), written without
    reference to the client code.  Arguments are arbitrary byte lists (empty, binary, CR/LF, any
    length), argument vectors have any length.  The hypothesis [wire_ok] (every length below 10^15) is
    the range in which the model of writeN (mathematical decimal digits) is tied to the real float
    digit routine; the proofs do not need it.

    That the client's own reader ([read_next]) decodes the same bytes to the array of blob strings is
    C12_roundtrip instantiated at [VArr (map VBlob argv)]; see C14_own_reader in Props/C12.v. *)
From Coq Require Import List Arith NArith Bool.
From Coq Require Import String.
Import ListNotations.
Require Import RV.Model.Base RV.Model.RespWrite RV.Proofs.RespWriteProofs.
Import ListNotations.
Open Scope N_scope.

(** a server parsing the written bytes recovers exactly argv and leaves what follows untouched *)
Theorem C14_decode_encode : forall (argv : list bytes) (rest : bytes),
  wire_ok argv -> parse_cmd (write_cmd argv ++ rest) = Some (argv, rest).
Proof. intros argv rest _. apply parse_cmd_write_cmd. Qed.
Print Assumptions C14_decode_encode.

(** consecutive commands are framed independently: the concatenation of any number of written
    commands parses back to exactly that list of commands *)
Theorem C14_framing : forall cs : list (list bytes),
  Forall wire_ok cs -> parse_stream (List.concat (map write_cmd cs)) = Some cs.
Proof. intros cs _. apply parse_stream_concat. Qed.
Print Assumptions C14_framing.

(** no frame is a prefix of another one followed by other bytes: boundaries are unambiguous *)
Theorem C14_prefix_free : forall a b ra rb,
  wire_ok a -> wire_ok b -> write_cmd a ++ ra = write_cmd b ++ rb -> a = b /\ ra = rb.
Proof. intros a b ra rb _ _. apply write_cmd_prefix_free. Qed.
Print Assumptions C14_prefix_free.

(** the length header is the canonical decimal numeral: only digits, its value is the length,
    no leading zero except for "0" itself is implied by [dval] + digit count (single digit below 10) *)
Theorem C14_length_header : forall n,
  Forall (fun d => is_digit d = true) (dec n) /\ dval (dec n) 0 = n /\ dec n <> [] /\ (n < 10 -> dec n = [48 + n]).
Proof. intros n. repeat split; [apply dec_digits|apply dec_val|apply dec_nonempty|apply dec_small]. Qed.
Print Assumptions C14_length_header.

(** non-vacuity: empty argument, CR/LF inside an argument, a 10-byte argument (two-digit length) *)
Example C14_nonvacuous :
  let argv := [h "534554"%string; []; h "0d0a2a310d0a"%string; h "00ff00ff00ff00ff00ff"%string] in
  write_cmd argv = h "2a340d0a24330d0a5345540d0a24300d0a0d0a24360d0a0d0a2a310d0a0d0a2431300d0a00ff00ff00ff00ff00ff0d0a"%string
  /\ parse_cmd (write_cmd argv ++ [1; 2]) = Some (argv, [1; 2])
  /\ parse_stream (write_cmd argv ++ write_cmd [] ++ write_cmd argv) = Some [argv; []; argv].
Proof. vm_compute. repeat split. Qed.
