(** C32 — Builder tags match command semantics.

    "Every command the builder marks read-only (and therefore auto-retried and replica-eligible) is a
    side-effect-free read, every command offering Cache() is read-only, every blocking command
    (including XREAD/XREADGROUP with BLOCK) is marked blocking so it never waits on the shared pipeline,
    and the SUBSCRIBE and UNSUBSCRIBE families are marked as Pub/Sub commands."

    Quantifier: all generated command builders and all completion paths through them.  [builders],
    [tags], [predefined] are regenerated from the repository on every run (Gen/Builders.v); the set
    [gen_closure] of reachable (command, builder type, flag word, BLOCK-appended) combinations is
    computed in Coq, proved closed ([C32_closed]) and the five rules are checked on it by the kernel.
    By [completed_obeys] (induction over paths) they then hold for every path of any length with any
    arguments.  The classification of Redis commands is Model/RedisCmds.v (hand-written).

    One rule is violated by the unchanged code: AI.MODELEXECUTE (it stores output tensors) is marked
    read-only and offers Cache().  [C32_readonly_refuted] exhibits it, [C32_readonly_characterised] proves
    it is the only offender, [C32_readonly_partial] is the rule for every other command. *)
From Coq Require Import List Arith NArith ZArith Bool.
Require Import RV.Model.Base RV.Model.Slot RV.Model.BuilderGraph RV.Model.BuilderSem RV.Model.BuilderChecks.
Require Import RV.Model.BuilderTags RV.Model.BuilderKnown RV.Model.RedisCmds.
Require Import RV.Gen.Crc16Tab RV.Gen.Builders.
Require Import RV.Proofs.BuilderProofs RV.Proofs.TagProofs RV.Proofs.BuilderGenProofs.
Require Import RV.Model.BuilderGen. (* the observer's check_case: built (and kept consistent) with the property *)
Import ListNotations.
Open Scope N_scope.

(** a command completed through the generated builders: root [r] (index [k]), calls [ss], terminal [t] *)
Definition completes_as (fe : fenv) (init : N) (k : nat) (r : root) (ss : list step) (t : terminal)
           (st : bstate) (c : completed) : Prop :=
  nth_error roots k = Some r /\
  exec_steps builders crc16tab fe (root_state r init) ss = Ok st /\
  finish builders st t = Ok c.

(** did one of the calls append the literal token BLOCK? *)
Definition block_given (tr : list (edge * list arg)) : bool := existsb (fun x => edge_blk (fst x)) tr.

Theorem C32_closed : closedb builders gen_closure = true.
Proof. exact gen_closed. Qed.
Print Assumptions C32_closed.

(** every builder path stays inside the closure *)
Theorem C32_reachable : forall fe init k r ss st,
  nth_error roots k = Some r ->
  exec_steps builders crc16tab fe (root_state r init) ss = Ok st ->
  exists tr, resolve builders (r_node r) ss = Some tr /\
             smem (arun (ainit (N.of_nat k) r) tr) gen_closure = true /\
             a_cf (arun (ainit (N.of_nat k) r) tr) = b_cf st /\ a_node (arun (ainit (N.of_nat k) r) tr) = b_node st.
Proof.
  intros fe init k r ss st Hk Hrun.
  destruct (exec_steps_abs _ _ _ _ _ _ Hrun) as (tr & Hr & Habs). cbn [root_state b_node] in Hr.
  destruct (Habs (ainit (N.of_nat k) r) eq_refl eq_refl) as (A & B & _ & _).
  exists tr. repeat split; try assumption.
  exact (closed_run builders gen_closure gen_closed ss _ tr (closed_root builders gen_closure k r gen_closed Hk) Hr).
Qed.
Print Assumptions C32_reachable.

(** Rule 1, full statement (FALSE on the unchanged code):
      forall completed commands, is_readonly tags (c_cf c) = true -> in_list read_b (cmd_name r) = true. *)
Theorem C32_readonly_refuted : exists fe init k r ss t st c,
  completes_as fe init k r ss t st c /\ is_readonly tags (c_cf c) = true /\ in_list read_b (cmd_name r) = false.
Proof.
  (* AI.MODELEXECUTE key INPUTS 1 in OUTPUTS 1 out *)
  exists (FEnv (fun _ => None) (fun _ => None)), 32768.
  destruct (find_root 0x0141694d6f64656c65786563757465 roots) as [r|] eqn:Er; [|vm_compute in Er; discriminate].
  assert (Hk : exists k, nth_error roots k = Some r).
  { apply In_nth_error. clear -Er. revert Er. generalize roots. induction l as [|x l IH]; cbn; [discriminate|].
    destruct (r_name x =? _); [intros H; inversion H; now left|intros H; right; now apply IH]. }
  destruct Hk as [k Hk].
  set (ss := [Call 0x014b6579 [AS [107]]; Call 0x01496e70757473 [AI 1%Z]; Call 0x01496e707574 [ASs [[105]]];
              Call 0x014f757470757473 [AI 1%Z]; Call 0x014f7574707574 [ASs [[111]]]]).
  vm_compute in Er. inversion Er; subst r. clear Er.
  eexists k, _, ss, TBuild, _, _. split; [split; [exact Hk|split; vm_compute; reflexivity]|].
  split; vm_compute; reflexivity.
Qed.
Print Assumptions C32_readonly_refuted.

(** exactly which commands break rule 1: AI.MODELEXECUTE and nothing else *)
Theorem C32_readonly_characterised :
  offenders tags builders RReadonly gen_closure = [AI_MODELEXECUTE] /\
  forall fe init k r ss t st c, completes_as fe init k r ss t st c ->
    is_readonly tags (c_cf c) = true -> in_list read_b (cmd_name r) = false -> cmd_name r = AI_MODELEXECUTE.
Proof.
  split; [exact gen_offenders_readonly|].
  intros fe init k r ss t st c (Hk & Hrun & Hfin) Hro Hnot.
  destruct (completed_obeys builders tags gen_closure RReadonly known_readonly_mistags crc16tab fe init k r ss st t c
              gen_closed gen_rule_readonly Hk Hrun Hfin) as (tr & nd & _ & _ & [Hknown|Hok]).
  - unfold known_readonly_mistags, in_list in Hknown. cbn [existsb] in Hknown. rewrite orb_false_r in Hknown.
    unfold bytes_eqb in Hknown.
    revert Hknown. generalize (cmd_name r) AI_MODELEXECUTE. clear.
    induction b as [|x b IH]; intros [|y b0] H; cbn in H; try discriminate; [reflexivity|].
    apply andb_prop in H. destruct H as [Hx Hb]. apply N.eqb_eq in Hx. subst. f_equal. now apply IH.
  - cbn [rule_ok] in Hok. rewrite Hro, Hnot in Hok. discriminate.
Qed.
Print Assumptions C32_readonly_characterised.

(** Rule 1 for every other command: marked read-only => side-effect-free read *)
Theorem C32_readonly_partial : forall fe init k r ss t st c, completes_as fe init k r ss t st c ->
  in_list known_readonly_mistags (cmd_name r) = false ->
  is_readonly tags (c_cf c) = true -> in_list read_b (cmd_name r) = true.
Proof.
  intros fe init k r ss t st c (Hk & Hrun & Hfin) Hnk Hro.
  destruct (completed_obeys builders tags gen_closure RReadonly known_readonly_mistags crc16tab fe init k r ss st t c
              gen_closed gen_rule_readonly Hk Hrun Hfin) as (tr & nd & _ & _ & [Hknown|Hok]).
  - rewrite Hknown in Hnk. discriminate.
  - cbn [rule_ok] in Hok. rewrite Hro in Hok. exact Hok.
Qed.
Print Assumptions C32_readonly_partial.

(** Rule 2: a builder type that offers Cache() only ever holds read-only flags *)
Theorem C32_cache_readonly : forall fe init k r ss t st c, completes_as fe init k r ss t st c ->
  forall nd, get_node builders (b_node st) = Some nd -> n_cache nd = true -> is_readonly tags (c_cf c) = true.
Proof.
  intros fe init k r ss t st c (Hk & Hrun & Hfin) nd Hn Hc.
  destruct (completed_obeys builders tags gen_closure RCache [] crc16tab fe init k r ss st t c
              gen_closed gen_rule_cache Hk Hrun Hfin) as (tr & nd' & _ & Hn' & [Hknown|Hok]); [discriminate|].
  rewrite Hn in Hn'. inversion Hn'; subst nd'. cbn [rule_ok] in Hok. rewrite Hc in Hok. exact Hok.
Qed.
Print Assumptions C32_cache_readonly.

(** Rule 3: blocking commands, and XREAD / XREADGROUP when BLOCK was given, carry blockTag *)
Theorem C32_blocking : forall fe init k r ss t st c, completes_as fe init k r ss t st c ->
  exists tr, resolve builders (r_node r) ss = Some tr /\
    (in_list blocking_b (cmd_name r) = true \/ (in_list block_opt_b (cmd_name r) = true /\ block_given tr = true) ->
     is_block tags (c_cf c) = true).
Proof.
  intros fe init k r ss t st c (Hk & Hrun & Hfin).
  destruct (completed_obeys builders tags gen_closure RBlocking [] crc16tab fe init k r ss st t c
              gen_closed gen_rule_blocking Hk Hrun Hfin) as (tr & nd & Hr & _ & [Hknown|Hok]); [discriminate|].
  exists tr. split; [exact Hr|]. intros H. cbn [rule_ok] in Hok. unfold block_given in H.
  destruct H as [H|[H1 H2]].
  - rewrite H in Hok. exact Hok.
  - rewrite H1, H2 in Hok. rewrite orb_true_r in Hok. exact Hok.
Qed.
Print Assumptions C32_blocking.

(** Rule 4: SUBSCRIBE / PSUBSCRIBE / SSUBSCRIBE are no-reply (Pub/Sub) commands,
    UNSUBSCRIBE / PUNSUBSCRIBE / SUNSUBSCRIBE carry the unsubscribe mark *)
Theorem C32_pubsub : forall fe init k r ss t st c, completes_as fe init k r ss t st c ->
  (in_list subscribe_b (cmd_name r) = true -> no_reply tags (c_cf c) = true) /\
  (in_list unsubscribe_b (cmd_name r) = true -> is_unsub tags (c_cf c) = true /\ no_reply tags (c_cf c) = true).
Proof.
  intros fe init k r ss t st c (Hk & Hrun & Hfin). split.
  - destruct (completed_obeys builders tags gen_closure RSubscribe [] crc16tab fe init k r ss st t c
                gen_closed gen_rule_subscribe Hk Hrun Hfin) as (tr & nd & _ & _ & [Hknown|Hok]); [discriminate|].
    intros H. cbn [rule_ok] in Hok. rewrite H in Hok. exact Hok.
  - destruct (completed_obeys builders tags gen_closure RUnsubscribe [] crc16tab fe init k r ss st t c
                gen_closed gen_rule_unsubscribe Hk Hrun Hfin) as (tr & nd & _ & _ & [Hknown|Hok]); [discriminate|].
    intros H. cbn [rule_ok] in Hok. rewrite H in Hok. split; [exact Hok|].
    (* unsubTag contains noRetTag *)
    assert (Hsub : has_tag (t_unsub tags) (t_noRet tags) = true) by (vm_compute; reflexivity).
    unfold is_unsub, no_reply, has_tag in *. apply N.eqb_eq in Hok. apply N.eqb_eq in Hsub. apply N.eqb_eq.
    rewrite <- Hsub at 1. rewrite N.land_assoc, Hok. exact Hsub.
Qed.
Print Assumptions C32_pubsub.

(** the predefined commands of cmds.go (SentinelSubscribe, UnsubscribeCmd, …) obey rules 1 and 4 *)
Theorem C32_predefined : forall p, In p predefined -> predef_ok tags p = true.
Proof. intros p Hp. pose proof gen_predef_ok as H. rewrite forallb_forall in H. now apply H. Qed.
Print Assumptions C32_predefined.

(** Arbitrary cannot be used to build a SUBSCRIBE-family command without the Pub/Sub marks: it panics *)
Theorem C32_arbitrary_refuses_subscribe : forall tg cs ks t c0 r,
  cs = c0 :: r -> has_suffix SUBSCRIBE (map upper_ascii c0) = true -> arb_finish tg cs ks t = Panic.
Proof.
  intros tg cs ks t c0 r -> Hs.
  assert (Hb : forall cf, arb_build (c0 :: r) cf ks = Panic).
  { intros cf. unfold arb_build. destruct c0; [reflexivity|]. now rewrite Hs. }
  destruct t; cbn [arb_finish]; try apply Hb.
  destruct c0; [reflexivity|]. destruct (_ || _); [apply Hb|reflexivity].
Qed.
Print Assumptions C32_arbitrary_refuses_subscribe.

(** the tag constants have the bit structure the predicates rely on (readonly and blockTag are disjoint bits,
    noRetTag ⊇ readonly, unsubTag ⊇ noRetTag, …) *)
Theorem C32_tags : tags_ok tags = true.
Proof. exact gen_tags_ok. Qed.
Print Assumptions C32_tags.

(** non-vacuity: XREAD BLOCK is read-only and blocking; XREAD without BLOCK is not blocking; GET offers Cache *)
Example C32_nonvacuous :
  let fe := FEnv (fun _ => None) (fun _ => None) in
  let flags p := match p with Ok c => Some (is_readonly tags (c_cf c), is_block tags (c_cf c)) | _ => None end in
  flags (build_path builders crc16tab fe 32768 0x015872656164
           [Call 0x01426c6f636b [AI 5%Z]; Call 0x0153747265616d73 []; Call 0x014b6579 [ASs [[107]]]; Call 0x014964 [ASs [[48]]]] TBuild)
    = Some (true, true)
  /\ flags (build_path builders crc16tab fe 32768 0x015872656164
           [Call 0x0153747265616d73 []; Call 0x014b6579 [ASs [[107]]]; Call 0x014964 [ASs [[48]]]] TBuild)
    = Some (true, false)
  /\ flags (build_path builders crc16tab fe 32768 0x01476574 [Call 0x014b6579 [AS [107]]] TCache) = Some (true, false)
  /\ flags (build_path builders crc16tab fe 32768 0x01536574 [Call 0x014b6579 [AS [107]]; Call 0x0156616c7565 [AS [118]]] TBuild)
    = Some (false, false).
Proof. vm_compute. repeat split. Qed.
