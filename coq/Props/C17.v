(** C17 — Cache serialization round-trips.

    [cache_marshal] / [cache_unmarshal_view] / [cache_size] transcribe message.go CacheMarshal /
    CacheUnmarshalView / CacheSize (serialize, unmarshalView with its absolute int64 offsets and
    explicit [Panic] outcomes for make() and slice expressions, cachesize), [set_expire_at] /
    [get_expire_at] the 7-byte little-endian expiry.

    [cacheable m]: integer / null / bool nodes carry any int64; array / map / set nodes carry any list
    of cacheable children; every other type byte is a string node with arbitrary bytes; no attributes
    (the codec drops them: C17_attrs_dropped).  Trees are unbounded in size and depth.
    [buf_bound] = 2^45: the encoding is a Go slice, hence far shorter than that; the hypothesis is needed
    because runtime.makeslice refuses more than 2^48/40 elements. *)
From Coq Require Import List Arith NArith ZArith Bool.
From Coq Require Import String.
Require Import RV.Model.Base RV.Model.CacheCodec RV.Proofs.CacheCodecProofs.
Import ListNotations.
Open Scope N_scope.

(** value tree, type and expiry are reconstructed exactly (the expiry field has 56 bits) *)
Theorem C17_roundtrip : forall (m : msg) (pxat : Z),
  cacheable m = true ->
  (zlen (cache_marshal m (set_expire_at pxat)) < buf_bound)%Z ->
  cache_unmarshal_view (cache_marshal m (set_expire_at pxat)) = Ok (m, (pxat mod two56)%Z).
Proof.
  intros m pxat Hc Hb. rewrite cache_roundtrip by (auto using set_expire_length).
  now rewrite expire_roundtrip.
Qed.
Print Assumptions C17_roundtrip.

Theorem C17_roundtrip_expiry_in_range : forall (m : msg) (pxat : Z),
  cacheable m = true -> (0 <= pxat < two56)%Z ->
  (zlen (cache_marshal m (set_expire_at pxat)) < buf_bound)%Z ->
  cache_unmarshal_view (cache_marshal m (set_expire_at pxat)) = Ok (m, pxat).
Proof. intros m pxat Hc Hp Hb. rewrite C17_roundtrip by assumption. now rewrite Z.mod_small. Qed.
Print Assumptions C17_roundtrip_expiry_in_range.

(** CacheMarshal writes exactly CacheSize bytes — for every message, cacheable or not *)
Theorem C17_size : forall (m : msg) (pxat : Z),
  N.of_nat (List.length (cache_marshal m (set_expire_at pxat))) = cache_size m.
Proof. intros. apply cache_marshal_length, set_expire_length. Qed.
Print Assumptions C17_size.

(** every strict prefix of an encoding is rejected with ErrCacheUnmarshal (not a panic, not a value) *)
Theorem C17_truncation : forall (m : msg) (pxat : Z) (k : nat),
  cacheable m = true ->
  (zlen (cache_marshal m (set_expire_at pxat)) < buf_bound)%Z ->
  (k < List.length (cache_marshal m (set_expire_at pxat)))%nat ->
  cache_unmarshal_view (firstn k (cache_marshal m (set_expire_at pxat))) = Err eCacheUnmarshal.
Proof. intros. apply cache_truncation; auto using set_expire_length. Qed.
Print Assumptions C17_truncation.

(** attributes are outside the codec: they do not influence the bytes, so a message with
    attributes comes back without them *)
Theorem C17_attrs_dropped : forall (m : msg) (pxat : Z),
  cache_marshal m (set_expire_at pxat) = cache_marshal (strip_attrs m) (set_expire_at pxat) /\
  (cacheable (strip_attrs m) = true ->
   (zlen (cache_marshal m (set_expire_at pxat)) < buf_bound)%Z ->
   cache_unmarshal_view (cache_marshal m (set_expire_at pxat)) = Ok (strip_attrs m, (pxat mod two56)%Z)).
Proof.
  intros m pxat.
  assert (E : cache_marshal m (set_expire_at pxat) = cache_marshal (strip_attrs m) (set_expire_at pxat)).
  { unfold cache_marshal. now rewrite serialize_strip. }
  split; [exact E|]. intros Hc Hb. rewrite E in *. now apply C17_roundtrip.
Qed.
Print Assumptions C17_attrs_dropped.

(** Outside the property's quantifier (design note S1): a buffer that was not produced by CacheMarshal
    can make unmarshalView panic (negative element count / negative string length). *)
Theorem C17_note_untrusted_buffer_can_panic :
  cache_unmarshal_view (h "00000000000000" ++ [tArray] ++ h "ffffffffffffffff")%list = Panic /\
  cache_unmarshal_view (h "00000000000000" ++ [tBlobString] ++ h "ffffffffffffffff")%list = Panic.
Proof. split; vm_compute; reflexivity. Qed.
Print Assumptions C17_note_untrusted_buffer_can_panic.

(** non-vacuity: a nested map/array/set with binary strings, negative integers, null, bool, an
    expiry using all 7 bytes; every one of its prefixes is rejected *)
Example C17_nonvacuous :
  let m := Msg tMap [] 4%Z
             [Msg tBlobString (h "6b00ff0d0a") 5%Z [] None; Msg tInteger [] (-7)%Z [] None;
              Msg tSimpleString (h "6b32") 2%Z [] None;
              Msg tArray [] 3%Z [Msg tNull [] 0%Z [] None; Msg tBool [] 1%Z [] None;
                                  Msg tSet [] 1%Z [Msg tFloat (h "312e35") 3%Z [] None] None] None] None in
  let b := cache_marshal m (set_expire_at 72057594037927935%Z) in
  cacheable m = true /\
  cache_unmarshal_view b = Ok (m, 72057594037927935%Z) /\
  N.of_nat (List.length b) = cache_size m /\
  forallb (fun k => match cache_unmarshal_view (firstn k b) with Err 1 => true | _ => false end) (seq 0 (List.length b)) = true.
Proof. vm_compute. repeat split. Qed.
