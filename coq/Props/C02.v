(** C02 - Pipeline queue hands each command off exactly once in FIFO order.

    Models: [RV.Model.Ring] (ring.go) and [RV.Model.Flow] (flowbuffer.go), labelled transition
    systems; a schedule is a [list label], [run] executes it.  Every theorem quantifies over ALL
    schedules, any number of putters and any ring size 2^k / any number of tokens
    ([reachable] = some schedule leads from the initial state to the state).

    Putters are numbered by their ticket (ring) / by the token they received (flow buffer); the
    command of putter p is item p.  "Queue order" is position order: position j is the j-th value of
    the ring's counters after their start value, it lives in slot [sof k start j] and is the
    [lap j]-th occupant of that slot.  With more than 2N concurrent callers a later ticket can
    occupy an earlier position; replies follow positions, so all statements are over positions.

    Proved: safety (exactly-once, order, slot owner, wrap), lost-wake-up freedom (L1, L2) and absence
    of stuck states.  NOT claimed: fair termination under the real Go scheduler. *)
From Coq Require Import List NArith ZArith Bool Arith.
Require Import RV.Model.Base RV.Model.Ring.
Require RV.Model.Flow.
Require Import RV.Model.QueueSpec.
Require Import RV.Proofs.RingBase RV.Proofs.RingInv RV.Proofs.RingInv2 RV.Proofs.RingTheorems RV.Proofs.RingProgress
               RV.Proofs.RingRefine RV.Proofs.RingEF RV.Proofs.RingPayload.
Require RV.Proofs.FlowProofs.
Import ListNotations.
Local Open Scope nat_scope.

(** the uint32 wrap of the tickets is harmless: (t mod 2^32) land (2^k - 1) = t mod 2^k *)
Theorem C02_wrap : forall k x, k <= 32 -> idx k (u32 x) = N.to_nat (x mod 2 ^ N.of_nat k)%N.
Proof. exact ring_wrap. Qed.
Print Assumptions C02_wrap.

(** refinement: under [abs] (fill history per slot + the three cursors) every step of the ring is a step of
    the abstract queue of positions [QueueSpec] with the same output - a ticket, a fill of the next position
    of a free slot, the writer's dequeue of position n1+1, the reader's completion of position n2+1 - or a
    stutter (locks, condition variables, sleep flags, uint32 counters are invisible) *)
Theorem C02_refines_fifo : forall k start st l st', reachable k start st -> lstep k st l = Some st' ->
  refines_step k start st st'.
Proof. exact ring_refines. Qed.
Print Assumptions C02_refines_fifo.

(** the writer's j-th dequeue is the command of position j, i.e. the [lap j]-th command that filled
    slot [sof j]: the writer walks the positions in order *)
Theorem C02_wire_order : forall k start st, reachable k start st ->
  wseq st = map (item_at k start st) (seq 1 (n1 st)) /\ length (wseq st) = n1 st /\
  forall j, 1 <= j <= n1 st ->
    nth_error (fillseq (slots st (sof k start j))) (lap k start j) = Some (item_at k start st j).
Proof. exact ring_writer_order. Qed.
Print Assumptions C02_wire_order.

(** the reader completes in the writer's order *)
Theorem C02_reader_order : forall k start st, reachable k start st ->
  n2 st <= n1 st /\ rseq st = firstn (n2 st) (wseq st).
Proof. exact ring_reader_order. Qed.
Print Assumptions C02_reader_order.

(** no command is handed to the writer twice, and whatever is handed over was put by a ticket holder
    into the slot of its ticket *)
Theorem C02_exactly_once : forall k start st, reachable k start st ->
  NoDup (wseq st) /\ forall p, In p (wseq st) -> 1 <= p <= nw st /\ In p (fillseq (slots st (sof k start p))).
Proof.
  intros k start st Hr. split; [apply (ring_exactly_once k start st Hr)|].
  intros p Hp. apply (ring_dequeued_were_put k start st p Hr Hp).
Qed.
Print Assumptions C02_exactly_once.

(** slot owner: the result channel is handed over to exactly the caller whose command it answers,
    the reader's lock tenure keeps every putter out of the slot, and while a result is undelivered
    nobody else can occupy the slot (position p+N cannot reuse it before p's result is delivered) *)
Theorem C02_slot_owner : forall k start st, reachable k start st ->
  (forall p st', lstep k st (RDeliver p) = Some st' ->
     exists s, rpc st = RHold s (Some p) /\ wt (slots st s) = [p] /\ bc (slots st s) = [] /\ recv st' = (p, p) :: recv st) /\
  own_results (recv st) = true /\
  (forall s it, rpc st = RHold s it -> forall p m, lstep k st (PutLock p s m) = None) /\
  (forall s i p m st', und st s = Some i -> lstep k st (PutLock p s m) = Some st' ->
     fillseq (slots st' s) = fillseq (slots st s) /\ und st' s = Some i).
Proof.
  intros k start st Hr. split; [|split; [|split]].
  - intros p st' Hl. eapply ring_own_result; eassumption.
  - eapply ring_all_own_results; eassumption.
  - intros s it Hh p m. eapply ring_lock_tenure; eassumption.
  - intros s i p m st' Hu Hl. eapply ring_slot_owner; eassumption.
Qed.
Print Assumptions C02_slot_owner.

(** payload own.  The slot stores the tuple (one, multi, resps) the code stores: PutOne writes [one] only,
    PutMulti writes [multi] and [resps] only, NextResultCh resets all three when it frees the slot.  In every
    reachable state a free slot holds the zero tuple and an occupied slot holds exactly what its occupant
    supplied ([own p false] = (cmd p, nil, nil) for PutOne, [own p true] = (zero, multi p, resps p) for PutMulti);
    a fill stores exactly the caller's payload; and the tuples handed to the reader and to the writer are the
    own tuples of the item they take - for every schedule, ring size and lap, in particular when a PutOne
    re-uses the slot a PutMulti used one lap earlier. *)
Theorem C02_payload_own : forall k start st, reachable k start st ->
  (forall s, slot_ok (slots st s)) /\
  (forall p s m st', lstep k st (PutLock p s m) = Some st' ->
     length (fillseq (slots st' s)) = S (length (fillseq (slots st s))) ->
     payload (slots st' s) = Some p /\ pm (slots st' s) = m /\ trip (slots st' s) = own p m /\
     fillseq (slots st' s) = fillseq (slots st s) ++ [p]) /\
  (forall st' s i, lstep k st RNext = Some st' -> rpc st' = RHold s (Some i) ->
     s = idx k (u32 (read2 st + 1)) /\ payload (slots st s) = Some i /\ handed k st RNext = own i (pm (slots st s)) /\
     trip (slots st' s) = (None, None, None)) /\
  (forall l st', (l = WNext \/ l = WWaitEnter \/ l = WWaitRetry) -> lstep k st l = Some st' -> n1 st' = S (n1 st) ->
     exists s i, payload (slots st s) = Some i /\ wseq st' = wseq st ++ [i] /\
       fst (handed k st l) = fst (own i (pm (slots st s)))).
Proof.
  intros k start st Hr. split; [apply (invp_reachable k start st Hr)|]. split; [|split].
  - intros p s m st' Hl Hlen. eapply fill_supplies; eassumption.
  - intros st' s i Hl Hh. eapply reader_handout_own; eassumption.
  - intros l st' Hlab Hl Hn. eapply writer_handout_own; eassumption.
Qed.
Print Assumptions C02_payload_own.

(** no lost wake-up.  L1: putters parked on a slot => the slot is occupied, or the reader holds its lock,
    or the reader is about to signal it, or one of them is already woken.  L2: the writer parked on a
    slot => slept is set and either there is nothing to write there or a putter is about to broadcast. *)
Theorem C02_no_lost_wakeup : forall k start st, reachable k start st ->
  (forall s, parked1 (slots st s) <> [] ->
      mark (slots st s) <> 0 \/ rlock (slots st s) = true \/ rpc st = RSig s \/ woken1 (slots st s) <> []) /\
  (forall s, wparked (slots st s) = true ->
      slept (slots st s) = true /\ wpc st = WWait s /\ (mark (slots st s) <> 1 \/ bc (slots st s) <> [])).
Proof. exact ring_no_lost_wakeup. Qed.
Print Assumptions C02_no_lost_wakeup.

(** no stuck state: while a ticket holder is unanswered (or the reader is in the middle of a hand-over)
    a step that moves the queue forward is enabled - a fill, a dequeue, a completion, a hand-over, an
    unlock or a wake-up; empty polls do not count.  Fair termination is not claimed. *)
Theorem C02_not_stuck : forall k start st, reachable k start st -> (n2 st < nw st \/ rpc st <> RIdle) ->
  exists l st', lstep k st l = Some st' /\ progress st l st'.
Proof. exact ring_not_stuck. Qed.
Print Assumptions C02_not_stuck.

(** D15.  In the code as found NextWriteCmd locks the slot mutex unconditionally: the system without the
    label [WNextBusy].  There a state is reachable in which the writer is idle, has dequeued everything up to
    position 2, and its next NextWriteCmd (position 3, slot 1) is disabled because the reader holds slot 1 while
    it waits for the rest of position 1's replies - the writer blocks with whatever it has buffered (pipe.go
    flushes only when NextWriteCmd returns nothing).  In the repaired code the call never blocks. *)
Definition d15_schedule : list label :=
  [PutTicket; PutLock 1 1 true; WNext; RNext; PutTicket; PutLock 2 0 false; WNext].

Theorem C02_next_write_blocks_orig :
  exists st, run 1 d15_schedule (init 0) = Some st /\ forallb (fun l => match l with WNextBusy => false | _ => true end) d15_schedule = true /\
    wpc st = WIdle /\ n1 st = 2 /\ rpc st = RHold 1 (Some 1) /\ lstep 1 st WNext = None.
Proof. eexists. split; [vm_compute; reflexivity|]. repeat split. Qed.
Print Assumptions C02_next_write_blocks_orig.

Theorem C02_next_write_never_blocks : forall k st, wpc st = WIdle ->
  lstep k st WNextBusy = Some st /\
  (rlock (slots st (idx k (u32 (read1 st + 1)))) = false -> exists st', lstep k st WNext = Some st').
Proof.
  intros k st Hw. split.
  - cbn [lstep]. rewrite Hw. reflexivity.
  - intro Hr. cbn [lstep]. rewrite Hw, Hr.
    destruct (writer_take st (idx k (u32 (read1 st + 1))) (u32 (read1 st + 1))); eexists; reflexivity.
Qed.
Print Assumptions C02_next_write_never_blocks.

(** AG EF: from every reachable state there is a finite continuation without new tickets after which every
    ticket holder's command has been written and completed and the reader is idle.  (Existence of a
    schedule; fair termination under the Go scheduler is not claimed.) *)
Theorem C02_all_answered_EF : forall k start st, reachable k start st ->
  exists sch st', run k sch st = Some st' /\ forallb no_ticket sch = true /\
                  nw st' = nw st /\ n2 st' = nw st' /\ n1 st' = nw st' /\ rpc st' = RIdle.
Proof. exact ring_all_answered_EF. Qed.
Print Assumptions C02_all_answered_EF.

(** ---- flow buffer ---- *)

(** token conservation |f| + in hand + |w| + |r| = N, all tokens distinct *)
Theorem C02_flow_conservation : forall n st, FlowProofs.reachable n st ->
  Flow.tokens st = n /\ NoDup (FlowProofs.toks st).
Proof. exact FlowProofs.flow_conservation. Qed.
Print Assumptions C02_flow_conservation.

Theorem C02_flow_sends_never_block : forall n st, FlowProofs.reachable n st ->
  (forall p t, Flow.find_tok p (Flow.ph st) = Some t -> length (Flow.w st) < n) /\
  (forall c, Flow.wh st = Some c -> length (Flow.r st) < n) /\
  (forall t i b, Flow.rh st = Some (t, i, b) -> length (Flow.f st) < n).
Proof. exact FlowProofs.flow_sends_never_block. Qed.
Print Assumptions C02_flow_sends_never_block.

(** FIFO order and exactly-once: the writer dequeues in the order of the sends, the reader completes
    in the writer's order, nothing was sent twice *)
Theorem C02_flow_order : forall n st, FlowProofs.reachable n st ->
  Flow.sent st = Flow.wseq st ++ map snd (Flow.w st) /\
  Flow.wseq st = Flow.rseq st ++ map snd (Flow.r st) ++ map snd (FlowProofs.optl (Flow.wh st)) /\
  NoDup (Flow.sent st).
Proof. exact FlowProofs.flow_order. Qed.
Print Assumptions C02_flow_order.

Theorem C02_flow_own_result : forall n st, FlowProofs.reachable n st ->
  Flow.own_results (Flow.recv st) = true /\
  forall p st', Flow.lstep n st (Flow.FDeliver p) = Some st' ->
    exists t, Flow.rh st = Some (t, p, false) /\ Flow.recv st' = (p, p) :: Flow.recv st /\ exists rest, Flow.wt st = (p, t) :: rest.
Proof.
  intros n st Hr. split; [apply (FlowProofs.flow_all_own_results n st Hr)|].
  intros p st' Hl. eapply FlowProofs.flow_own_result; eassumption.
Qed.
Print Assumptions C02_flow_own_result.

Theorem C02_flow_not_stuck : forall n st, FlowProofs.reachable n st -> (Flow.ph st <> [] \/ Flow.wt st <> []) ->
  exists l st', Flow.lstep n st l = Some st'.
Proof. exact FlowProofs.flow_not_stuck. Qed.
Print Assumptions C02_flow_not_stuck.

(** non-vacuity: five callers on a two-slot ring whose counters start at 2^32 - 2 (the tickets wrap),
    two of them parked on the same slot, the writer asleep: a reachable state with work pending *)
Definition nv_schedule : list label :=
  [WWaitEnter; PutTicket; PutTicket; PutTicket; PutTicket; PutTicket;
   PutLock 1 1 true; PutLock 3 1 false; PutLock 5 1 true; PutBcast 1 1; WWaitRetry; PutLock 2 0 false; WNext; RNext].

Example C02_nonvacuous :
  exists st, run 1 nv_schedule (init 4294967294) = Some st /\
    nw st = 5 /\ n1 st = 2 /\ n2 st = 1 /\ wseq st = [1; 2] /\ rseq st = [1] /\
    parked1 (slots st 1) = [3; 5] /\ write st = 3%N /\ rpc st = RHold 1 (Some 1).
Proof. eexists. split; [vm_compute; reflexivity|]. repeat split. Qed.

Example C02_flow_nonvacuous :
  exists st, Flow.run 2 [Flow.FTake; Flow.FTake; Flow.FPutW 2; Flow.FPutW 1; Flow.FWTake; Flow.FPutR; Flow.FRTake] (Flow.init 2) = Some st /\
    Flow.sent st = [2; 1] /\ Flow.wseq st = [2] /\ Flow.rseq st = [2] /\ Flow.tokens st = 2.
Proof. eexists. split; [vm_compute; reflexivity|]. repeat split. Qed.

(** non-vacuity of [C02_payload_own]: on a 2-slot ring putter 1 (PutMulti) uses slot 1 and is answered, then one
    lap later putter 3 (PutOne) uses slot 1 again: the reader is handed (cmd 3, nil, nil), not putter 1's slices *)
Example C02_payload_nonvacuous :
  exists st, run 1 [PutTicket; PutLock 1 1 true; WNext; RNext; RDeliver 1; RUnlock; RSignal None;
                    PutTicket; PutLock 2 0 false; WNext; RNext; RDeliver 2; RUnlock; RSignal None;
                    PutTicket; PutLock 3 1 false; WNext] (init 0) = Some st /\
    fillseq (slots st 1) = [1; 3] /\ handed 1 st RNext = (Some 3, None, None) /\ trip (slots st 0) = (None, None, None).
Proof. eexists. split; [vm_compute; reflexivity|]. repeat split. Qed.
