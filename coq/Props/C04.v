(** C04 — Broken connections and Close never leave calls hanging.

    Object: the LTS [PipeLts.pstep] (see Props/C01.v for the reading guide); the events of interest are
    [LFail] (the peer / network closes the connection), [LExtExit] (an _exit from the keep-alive
    watchdog), [LSyncFail], [LRFail] / [LWExit] (the reader / writer observe the failure), the Close
    labels, the tail of _background ([LPostSkip]/[LPostPing]: the sacrificial PING; [LCleanNW],
    [LCleanNR], [LCleanSpin], [LCleanExit]: the clean-up loop; [LFinal]: state 4).
    Quantifier: every schedule, any number of callers and Close calls, any failure point.

    Termination under a real scheduler is not a model notion (blocking is a disabled step): the theorems
    say that nothing is stuck and that nothing is left waiting once the loop is over; the wall-clock
    bound is measured by obs_fault.  Partial for scheduling/timing.
 *)
From Coq Require Import List NArith ZArith Bool.
Require Import RV.Model.Base RV.Model.PipeQueue RV.Model.Pipe RV.Model.PipeLts.
Require Import RV.Proofs.PipeLtsBasics RV.Proofs.PipeExclusive RV.Proofs.PipeRouting RV.Proofs.PipeLifecycle RV.Proofs.PipeNotStuck.
Import ListNotations.
Open Scope N_scope.

Definition server_ok (g : config) : Prop := forall c, cmd_served_ok (g_r2ps g) (g_srv g) c = true.

(** Once the clean-up loop has terminated ([drained]: the loop saw waits = 0; state 4 follows), no call is
    waiting on this pipe any more: every caller record is idle, about to look at the state word,
    on the error path, or returned ([quiet_c]); no abandoning caller's drain goroutine is left
    ([k_drain] is DNone / DDone); no Close is waiting for its PING ([quiet_k]); the cache was closed
    (its waiters released with ErrDoCacheAborted), the state is closing/closed, an error is latched,
    and the counter equals the number of counts held (so it is exact, not leaked). *)
Theorem C04_drain : forall g sched s,
  prun g sched (p_init g) = Some s -> drained s ->
  (forall t, quiet_c (p_calls s t)) /\ (forall t, quiet_k (p_closers s t)) /\
  p_cache_closed s = true /\ st_closed s /\ p_conn s = false /\ p_err s <> None /\ p_waits s = hsum s.
Proof. intros g sched s H Hd. exact (drain g sched s H Hd). Qed.
Print Assumptions C04_drain.

(** … and every call that has returned holds, for each of its commands, the server's reply to that very
    command or an error — never a hole, never another call's reply (C01_routing_partial, repeated here
    for the failure case): *)
Theorem C04_results_are_replies_or_errors : forall g sched s t,
  server_ok g -> g_ver g <> 6%Z ->
  prun g sched (p_init g) = Some s ->
  exists k es, k_res (p_calls s t) =
               map RMsg (map (result_of (g_srv g)) (firstn k (k_cmds (p_calls s t)))) ++ map RErr es.
Proof. intros g sched s t Hs Hv H. exact (proj1 (routing g Hs Hv sched s t H)). Qed.
Print Assumptions C04_results_are_replies_or_errors.

(** While the clean-up loop runs and the counter is not zero, some thread other than the loop's idle
    spin (and other than the environment) can take a step: every counted waiter is either about to
    move by itself (including a caller blocked in PutOne on a full queue once a position is freed, and
    the sacrificial PING) or has its slot in the queue, where the loop — or the writer, as long as it
    has not exited — reaches it. *)
Theorem C04_not_stuck : forall g sched s,
  server_ok g -> g_ver g <> 6%Z -> (0 < g_cap g)%nat ->
  prun g sched (p_init g) = Some s -> p_b s = BClean -> (0 < p_waits s)%nat ->
  exists l s', progress_label l = true /\ pstep g s l = Some s'.
Proof. intros g sched s Hs Hv Hc H Hb Hw. exact (not_stuck_reach g Hs Hv Hc sched s H Hb Hw). Qed.
Print Assumptions C04_not_stuck.

(** After a Close has passed its compare-and-swap on the state word: the state is closing/closed, an
    error is latched, and a caller that loads the state goes to the error path (it neither queues nor
    touches the connection) … *)
Theorem C04_after_close : forall g sched s k,
  prun g sched (p_init g) = Some s -> closer_past_cas (p_closers s k) ->
  st_closed s /\ p_err s <> None /\
  forall t w s', k_pc (p_calls s t) = PLoad w -> pstep g s (LLoad t) = Some s' -> k_pc (p_calls s' t) = PErr.
Proof. intros g sched s k H Hk. exact (after_close g sched s k H Hk). Qed.
Print Assumptions C04_after_close.

(** … where it returns the latched error for every command; the latched error is ErrClosing when Close
    came first, and it never changes afterwards. *)
Theorem C04_error_path_returns_latched : forall g s t s1 s2,
  k_pc (p_calls s t) = PErr -> pstep g s (LErr t) = Some s1 -> pstep g s1 (LDecr t) = Some s2 ->
  k_ret (p_calls s2 t) = Some (errs_for (p_calls s t) (the_err s)).
Proof. exact err_path_returns. Qed.
Print Assumptions C04_error_path_returns_latched.

Theorem C04_close_latches_errclosing : forall g s t s',
  p_err s = None -> pstep g s (LClose1 t) = Some s' -> p_err s' = Some EClosing.
Proof. exact close_latches. Qed.
Print Assumptions C04_close_latches_errclosing.

Theorem C04_latched_error_is_stable : forall g s l s' e,
  pstep g s l = Some s' -> p_err s = Some e -> p_err s' = Some e.
Proof. exact err_stable. Qed.
Print Assumptions C04_latched_error_is_stable.

(** non-vacuity: two queued calls, the connection fails after the first reply; the reader fails, the
    writer is woken by the sacrificial PING and exits, the loop drains the second call and the PING,
    reaches waits = 0 and state 4; a later call gets the latched error. *)
Definition echo_srv : server := mkSrv (fun c => Msg 36 [c_id c] 0 []) (fun c => []) (fun c => pong_msg).
Definition plain (id : N) : cmd := mkCmd id 2 false false false false false false.
Definition cfg : config := mkCfg Ring 4 false 7 echo_srv.
Definition fail_sched : list label :=
  [LCall 1 [plain 10] false CtxCancel; LIncr 1; LLoad 1; LBg 1; LPut 1;
   LCall 2 [plain 20; plain 21] true CtxBg; LIncr 2; LLoad 2; LPut 2;
   LWNext; LWNext; LWFlush; LSrv; LRStep; LRecv 1; LFin 1;
   LFail; LRFail; LPostPing 9; LPut 9; LWNext; LWExit;
   LCleanNR; LCleanNR; LRecv 2; LFin 2; LRecv 9; LFin 9; LCleanExit; LFinal;
   LCall 3 [plain 30] false CtxBg; LIncr 3; LLoad 3; LErr 3; LDecr 3].

Example C04_nonvacuous :
  option_map (fun s => (p_st s, p_waits s, p_b s, k_ret (p_calls s 1), k_ret (p_calls s 2), k_ret (p_calls s 3)))
             (prun cfg fail_sched (p_init cfg)) =
  Some (4, 0%nat, BDone, Some [RMsg (Msg 36 [10] 0 [])], Some [RErr EConn; RErr EConn], Some [RErr EConn]).
Proof. vm_compute. reflexivity. Qed.

(** the not-stuck hypothesis is met right after the reader failed *)
Example C04_nonvacuous_not_stuck :
  option_map (fun s => (p_b s, p_waits s))
             (prun cfg (firstn 19 fail_sched) (p_init cfg)) = Some (BClean, 2%nat).
Proof. vm_compute. reflexivity. Qed.
