(** C04 — Broken connections and Close never leave calls hanging.

    Object: the LTS [PipeLts.pstep] (see Props/C01.v for the reading guide); the events of interest are
    [LFail] (the peer / network closes the connection), [LExtExit] (an _exit from the keep-alive
    watchdog), [LSyncFail], [LRFail] / [LWExit] (the reader / writer observe the failure), the Close
    labels, the tail of _background ([LPostSkip]/[LPostPing]: the sacrificial PING; [LCleanNW],
    [LCleanNR], [LCleanSpin], [LCleanExit]: the clean-up loop; [LFinal]: state 4).
    Quantifier: every schedule, any number of callers and Close calls, any failure point.

    Termination under a real scheduler is not a model notion (blocking is a disabled step): the theorems
    say that nothing is stuck and that nothing is left waiting once the loop is over; the wall-clock
    bound is measured by obs_fault.  Partial for scheduling/timing.
 *)
From Coq Require Import List NArith ZArith Bool.
Require Import RV.Model.Base RV.Model.PipeQueue RV.Model.Pipe RV.Model.PipeLts RV.Model.PipeWatch.
Require Import RV.Proofs.PipeLtsBasics RV.Proofs.PipeExclusive RV.Proofs.PipeRouting RV.Proofs.PipeLifecycle RV.Proofs.PipeNotStuck.
Require Import RV.Proofs.PipeWatchProofs.
Import ListNotations.
Open Scope N_scope.

Definition server_ok (g : config) : Prop := forall c, cmd_served_ok (g_r2ps g) (g_srv g) c = true.

(** Once the clean-up loop has terminated ([drained]: the loop saw waits = 0; state 4 follows), no call is
    waiting on this pipe any more: every caller record is idle, about to look at the state word,
    on the error path, or returned ([quiet_c]); no abandoning caller's drain goroutine is left
    ([k_drain] is DNone / DDone); no Close is waiting for its PING ([quiet_k]); the cache was closed
    (its waiters released with ErrDoCacheAborted), the state is closing/closed, an error is latched,
    and the counter equals the number of counts held (so it is exact, not leaked). *)
Theorem C04_drain : forall g sched s,
  prun g sched (p_init g) = Some s -> drained s ->
  (forall t, quiet_c (p_calls s t)) /\ (forall t, quiet_k (p_closers s t)) /\
  p_cache_closed s = true /\ st_closed s /\ p_conn s = false /\ p_err s <> None /\ p_waits s = hsum s.
Proof. intros g sched s H Hd. exact (drain g sched s H Hd). Qed.
Print Assumptions C04_drain.

(** … and every call that has returned holds, for each of its commands, the server's reply to that very
    command or an error — never a hole, never another call's reply (C01_routing_partial, repeated here
    for the failure case): *)
Theorem C04_results_are_replies_or_errors : forall g sched s t,
  server_ok g -> g_ver g <> 6%Z ->
  prun g sched (p_init g) = Some s ->
  exists k es, k_res (p_calls s t) =
               map RMsg (map (result_of (g_srv g)) (firstn k (k_cmds (p_calls s t)))) ++ map RErr es.
Proof. intros g sched s t Hs Hv H. exact (proj1 (routing g Hs Hv sched s t H)). Qed.
Print Assumptions C04_results_are_replies_or_errors.

(** While the clean-up loop runs and the counter is not zero, some thread other than the loop's idle
    spin (and other than the environment) can take a step: every counted waiter is either about to
    move by itself (including a caller blocked in PutOne on a full queue once a position is freed, and
    the sacrificial PING) or has its slot in the queue, where the loop — or the writer, as long as it
    has not exited — reaches it. *)
Theorem C04_not_stuck : forall g sched s,
  server_ok g -> g_ver g <> 6%Z -> (0 < g_cap g)%nat ->
  prun g sched (p_init g) = Some s -> p_b s = BClean -> (0 < p_waits s)%nat ->
  exists l s', progress_label l = true /\ pstep g s l = Some s'.
Proof. intros g sched s Hs Hv Hc H Hb Hw. exact (not_stuck_reach g Hs Hv Hc sched s H Hb Hw). Qed.
Print Assumptions C04_not_stuck.

(** After a Close has passed its compare-and-swap on the state word: the state is closing/closed, an
    error is latched, and a caller that loads the state goes to the error path (it neither queues nor
    touches the connection) … *)
Theorem C04_after_close : forall g sched s k,
  prun g sched (p_init g) = Some s -> closer_past_cas (p_closers s k) ->
  st_closed s /\ p_err s <> None /\
  forall t w s', k_pc (p_calls s t) = PLoad w -> pstep g s (LLoad t) = Some s' -> k_pc (p_calls s' t) = PErr.
Proof. intros g sched s k H Hk. exact (after_close g sched s k H Hk). Qed.
Print Assumptions C04_after_close.

(** … where it returns the latched error for every command; the latched error is ErrClosing when Close
    came first, and it never changes afterwards. *)
Theorem C04_error_path_returns_latched : forall g s t s1 s2,
  k_pc (p_calls s t) = PErr -> pstep g s (LErr t) = Some s1 -> pstep g s1 (LDecr t) = Some s2 ->
  k_ret (p_calls s2 t) = Some (errs_for (p_calls s t) (the_err s)).
Proof. exact err_path_returns. Qed.
Print Assumptions C04_error_path_returns_latched.

Theorem C04_close_latches_errclosing : forall g s t s',
  p_err s = None -> pstep g s (LClose1 t) = Some s' -> p_err s' = Some EClosing.
Proof. exact close_latches. Qed.
Print Assumptions C04_close_latches_errclosing.

Theorem C04_latched_error_is_stable : forall g s l s' e,
  pstep g s l = Some s' -> p_err s = Some e -> p_err s' = Some e.
Proof. exact err_stable. Qed.
Print Assumptions C04_latched_error_is_stable.

(** non-vacuity: two queued calls, the connection fails after the first reply; the reader fails, the
    writer is woken by the sacrificial PING and exits, the loop drains the second call and the PING,
    reaches waits = 0 and state 4; a later call gets the latched error. *)
Definition echo_srv : server := mkSrv (fun c => Msg 36 [c_id c] 0 []) (fun c => []) (fun c => pong_msg).
Definition plain (id : N) : cmd := mkCmd id 2 false false false false false false.
Definition cfg : config := mkCfg Ring 4 false 7 echo_srv.
Definition fail_sched : list label :=
  [LCall 1 [plain 10] false CtxCancel; LIncr 1; LLoad 1; LBg 1; LPut 1;
   LCall 2 [plain 20; plain 21] true CtxBg; LIncr 2; LLoad 2; LPut 2;
   LWNext; LWNext; LWFlush; LSrv; LRStep; LRecv 1; LFin 1;
   LFail; LRFail; LPostPing 9; LPut 9; LWNext; LWExit;
   LCleanNR; LCleanNR; LRecv 2; LFin 2; LRecv 9; LFin 9; LCleanExit; LFinal;
   LCall 3 [plain 30] false CtxBg; LIncr 3; LLoad 3; LErr 3; LDecr 3].

Example C04_nonvacuous :
  option_map (fun s => (p_st s, p_waits s, p_b s, k_ret (p_calls s 1), k_ret (p_calls s 2), k_ret (p_calls s 3)))
             (prun cfg fail_sched (p_init cfg)) =
  Some (4, 0%nat, BDone, Some [RMsg (Msg 36 [10] 0 [])], Some [RErr EConn; RErr EConn], Some [RErr EConn]).
Proof. vm_compute. reflexivity. Qed.

(** the not-stuck hypothesis is met right after the reader failed *)
Example C04_nonvacuous_not_stuck :
  option_map (fun s => (p_b s, p_waits s))
             (prun cfg (firstn 19 fail_sched) (p_init cfg)) = Some (BClean, 2%nat).
Proof. vm_compute. reflexivity. Qed.

(** ** The keep-alive watchdog and the blocking-command signal (Model/PipeWatch.v)

    A connection that goes silent without being closed is failed by backgroundPing only: the pending calls without a
    deadline, Receive and the error channel of SetPubSubHooks depend on it.  The watchdog stands back while
    p.blcksig <> 0.  [wrun] is the pipe LTS extended with that counter as Do / DoMulti maintain it and with the
    watchdog's tick / time-out; every state it reaches is a state of the pipe LTS ([C04_watchdog_states_are_pipe_states]),
    so everything above applies to it. *)
Theorem C04_watchdog_states_are_pipe_states : forall g sched ws,
  wrun g sched (w_init g) = Some ws -> exists base, prun g base (p_init g) = Some (w_p ws).
Proof. intros g sched ws H. apply (wrun_base g sched (w_init g) ws []); [reflexivity|exact H]. Qed.
Print Assumptions C04_watchdog_states_are_pipe_states.

(** the counter is exactly the number of blocking calls that are in flight or were abandoned with a transport or
    context error (whose wire the caller aborts); a blocking call that ended with a reply - a value, a null reply,
    an error reply - no longer counts *)
Theorem C04_blcksig_exact : forall g sched ws,
  wrun g sched (w_init g) = Some ws -> w_blk ws = bsum (w_p ws).
Proof. exact blcksig_exact. Qed.
Print Assumptions C04_blcksig_exact.

Theorem C04_blcksig_zero : forall g sched ws,
  wrun g sched (w_init g) = Some ws -> ~ blocked_or_aborted (w_p ws) -> w_blk ws = 0%nat.
Proof. exact blcksig_zero. Qed.
Print Assumptions C04_blcksig_zero.

(** hence, on a pipe without error that is not in the middle of a synchronous call, with no blocking call in flight or
    abandoned, the watchdog's own steps are enabled and close the connection and latch the error without touching
    the queue or the calls: from there [C04_not_stuck] / [C04_drain] hand every pending call its error *)
Theorem C04_watchdog_fails_silent_connection : forall g sched ws,
  wrun g sched (w_init g) = Some ws -> ~ blocked_or_aborted (w_p ws) ->
  p_err (w_p ws) = None -> (p_st (w_p ws) = 0 -> p_waits (w_p ws) = 0%nat) ->
  exists path ws', (path = [WTick; WTimeout] \/ path = [WTimeout]) /\ wrun g path ws = Some ws' /\
                   p_err (w_p ws') = Some EWatchdog /\ p_conn (w_p ws') = false /\ p_st (w_p ws') <> 1 /\
                   p_calls (w_p ws') = p_calls (w_p ws) /\ p_q (w_p ws') = p_q (w_p ws) /\ p_waits (w_p ws') = p_waits (w_p ws).
Proof. exact watchdog_enabled. Qed.
Print Assumptions C04_watchdog_fails_silent_connection.

(** non-vacuity: a blocking command answered by a null reply (call 1), then a pipelined call without deadline
    (call 2) on a server that has gone silent: blcksig is back at 0, the watchdog ticks, times out, the reader fails,
    the drain hands call 2 the watchdog's error.  With a blocking command abandoned on a context error instead
    (call 3, last example) the counter stays at 1 and the watchdog's tick is disabled - by design: such a wire is aborted. *)
Definition blpop (id : N) : cmd := mkCmd id 3 false false false false false true.
Definition nil_srv : server := mkSrv (fun c => if N.eqb (c_id c) 10 then Msg 95 [] 0 [] else Msg 36 [c_id c] 0 []) (fun c => []) (fun c => pong_msg).
Definition wcfg : config := mkCfg Ring 4 false 7 nil_srv.
Definition stall_sched : list wlabel :=
  map WL [LCall 1 [blpop 10] false CtxBg; LIncr 1; LLoad 1; LSyncW 1; LSrv; LSyncR 1; LDecr 1;
          LCall 2 [plain 20] false CtxCancel; LIncr 2; LLoad 2; LBg 2; LPut 2; LWNext; LWFlush] ++
  [WTick; WTimeout] ++
  map WL [LRFail; LPostPing 9; LPut 9; LWNext; LWExit; LCleanNR; LRecv 2; LFin 2].

Example C04_nonvacuous_watchdog :
  option_map (fun ws => (w_blk ws, k_ret (p_calls (w_p ws) 1), k_ret (p_calls (w_p ws) 2), p_err (w_p ws)))
             (wrun wcfg stall_sched (w_init wcfg)) =
  Some (0%nat, Some [RMsg (Msg 95 [] 0 [])], Some [RErr EWatchdog], Some EWatchdog).
Proof. vm_compute. reflexivity. Qed.

Example C04_nonvacuous_blcksig_up :
  option_map (fun ws => (w_blk ws, wstep wcfg ws WTick))
             (wrun wcfg (map WL [LCall 1 [blpop 10] false CtxBg; LIncr 1; LLoad 1; LSyncW 1]) (w_init wcfg)) =
  Some (1%nat, None).
Proof. vm_compute. reflexivity. Qed.

Example C04_nonvacuous_abandoned :
  option_map (fun ws => (w_blk ws, k_ret (p_calls (w_p ws) 3)))
             (wrun wcfg (map WL [LCall 9 [plain 90] false CtxCancel; LIncr 9; LLoad 9; LBg 9; LPut 9;
                                 LCall 3 [blpop 30] false CtxDeadline; LIncr 3; LLoad 3; LPut 3; LCtxDone 3; LAbort 3]) (w_init wcfg)) =
  Some (1%nat, Some [RErr ECtx]).
Proof. vm_compute. reflexivity. Qed.
