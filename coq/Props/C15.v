(** C15 — Typed reply accessors never panic and propagate errors.

    [run e a m] is accessor [a] (38 of them: Error, the To* / As* scalar family, DecodeJSON, the slice and
    map accessors, the stream / sorted-set / scan / pop / FT.SEARCH / FT.AGGREGATE / GEOSEARCH helpers, ToMap,
    ToAny, DecodeSliceOfJSON) applied to the reply tree [m], for ANY behaviour [e] of strconv.ParseFloat,
    float64(int64) and json.Unmarshal.  [run_result] is the same through a
    RedisResult.  [classify k text] are the RedisError classifiers on an error text.

    Quantifier: every reply tree — the theorems of the first group hold for ALL trees of the model's type,
    a superset of what the decoder can produce (children lists of any length, hence odd-length streamed maps,
    empty aggregates, scalars where aggregates are expected, any nesting depth); the wrong-shape theorem is
    stated for [decodable] trees.

    The statements are about the repaired code (fix: accessor guards); the [_before_fix] theorems record what
    the original code did at two of the repaired places (the others are kept as corpus witnesses). *)
From Coq Require Import String List NArith ZArith Bool.
Require Import RV.Model.Base RV.Model.AccBase RV.Model.Accessors RV.Proofs.AccNoPanic RV.Proofs.AccErrors.
Import ListNotations.
Open Scope N_scope.

(** no accessor panics, on any tree, directly or through a RedisResult *)
Theorem C15_no_panic : forall e a m, run e a m <> RPanic.
Proof. exact run_no_panic. Qed.
Print Assumptions C15_no_panic.

Theorem C15_no_panic_result : forall e a rerr m, run_result e a rerr m <> RPanic.
Proof. exact run_result_no_panic. Qed.
Print Assumptions C15_no_panic_result.

(** … in particular on every tree the decoder can produce *)
Theorem C15_no_panic_decodable : forall e a m, decodable m = true -> run e a m <> RPanic.
Proof. intros e a m _. apply run_no_panic. Qed.
Print Assumptions C15_no_panic_decodable.

(** the classifiers never panic, on any error text *)
Theorem C15_classifiers_no_panic : forall k text, classify k text <> RPanic.
Proof. exact classify_no_panic. Qed.
Print Assumptions C15_classifiers_no_panic.

(** a nil reply surfaces as the Nil error from every accessor *)
Theorem C15_nil : forall e a m, mtyp m = tNull -> has_arr m = false -> run e a m = RErr ENil.
Proof. exact nil_propagates. Qed.
Print Assumptions C15_nil.

(** an error reply surfaces as that RedisError (type byte kept, "ERR " prefix trimmed) from every accessor *)
Theorem C15_error_reply : forall e a m, (mtyp m = tSimpleErr \/ mtyp m = tBlobErr) -> has_arr m = false ->
  run e a m = RErr (ERedis (mtyp m) (trim_prefix (b "ERR ") (mstr m))).
Proof. exact error_propagates. Qed.
Print Assumptions C15_error_reply.

(** decodable nil / error replies satisfy the side condition of the two theorems above *)
Theorem C15_nil_error_decodable : forall m, decodable m = true ->
  (mtyp m =? tNull) || (mtyp m =? tSimpleErr) || (mtyp m =? tBlobErr) = true -> has_arr m = false.
Proof. exact decodable_nil_or_err_scalar. Qed.
Print Assumptions C15_nil_error_decodable.

(** a RedisResult holding a non-redis error returns it from every accessor; otherwise it delegates *)
Theorem C15_result_error : forall e a k m,
  run_result e a (Some k) m = RErr (EOther k) /\ run_result e a None m = run e a m.
Proof. intros. split; reflexivity. Qed.
Print Assumptions C15_result_error.

(** wrong shape.  Full statement (every accessor, every decodable non-nil non-error reply of a type the
    accessor is not meant for, gives a parse error):

      forall e a m, decodable m = true -> msg_error m = None -> accepts a (mtyp m) = false -> run e a m = RErr EParse

    is REFUTED by the code: ToString reads a boolean (or end-marker) reply as the empty string, and so do the
    accessors built on it.  Proved: the witness, the exact behaviour on that class, and the statement with
    that class excluded. *)
Theorem C15_wrong_shape_refuted : forall e,
  exists m, decodable m = true /\ msg_error m = None /\ accepts AToString (mtyp m) = false /\
            run e AToString m = ROk (VStr []).
Proof. intro e. exists (MInt tBool 1 None). exact (wrong_shape_refuted_witness e). Qed.
Print Assumptions C15_wrong_shape_refuted.

Theorem C15_wrong_shape_characterised : forall e m,
  has_arr m = false -> (mtyp m = tBool \/ mtyp m = tEnd) ->
  to_string m = ROk (mstr m) /\
  run e AToString m = ROk (VStr (mstr m)) /\ run e AAsReader m = ROk (VStr (mstr m)) /\ run e AAsBytes m = ROk (VStr (mstr m)) /\
  run e ADecodeJSON m = (if json_ok e (mstr m) then ROk VUnit else RErr EJson) /\
  run e AAsInt64 m = (match parse_int10 (mstr m) with Some z => ROk (VInt z) | None => RErr ENum end) /\
  run e AAsUint64 m = (match parse_uint10 (mstr m) with Some n => ROk (VUint n) | None => RErr ENum end).
Proof. exact scalar_as_string_characterised. Qed.
Print Assumptions C15_wrong_shape_characterised.

Theorem C15_wrong_shape_partial : forall e a m,
  decodable m = true -> msg_error m = None -> accepts a (mtyp m) = false -> scalar_as_string a m = false ->
  run e a m = RErr EParse.
Proof. exact wrong_shape_parse_error. Qed.
Print Assumptions C15_wrong_shape_partial.

(** the original code at two of the repaired places *)
Theorem C15_classifiers_before_fix_characterised : forall prefix field text,
  redirect_addr_before_fix prefix field text = RPanic <->
  has_prefix text prefix = true /\ (length (split_byte 32 text) <= field)%nat.
Proof. exact redirect_before_fix_characterised. Qed.
Print Assumptions C15_classifiers_before_fix_characterised.

Theorem C15_classifiers_fix_conservative : forall prefix field text,
  redirect_addr_before_fix prefix field text <> RPanic ->
  redirect_addr prefix field text = redirect_addr_before_fix prefix field text.
Proof. exact redirect_fix_agrees. Qed.
Print Assumptions C15_classifiers_fix_conservative.

Theorem C15_to_map_before_fix_refuted :
  to_map_before_fix (MArr tMap [MStr tBlobString (b "k") None] None) = RPanic /\
  (forall m, even_len (mvals m) = true -> to_map m = to_map_before_fix m).
Proof. split; [exact to_map_before_fix_panics|exact to_map_fix_agrees]. Qed.
Print Assumptions C15_to_map_before_fix_refuted.

(** non-vacuity: the inputs that used to panic now give errors / ok=false; an odd streamed map inside a
    well-formed reply; a deep tree through ToAny *)
Definition ex_env : env := mkEnv (fun _ => (0, false)) (fun _ => 0) (fun _ => false).

Example C15_nonvacuous_classifiers :
  classify KMoved (b "MOVED 1") = ROk (VTup [VStr []; VBool false]) /\
  classify KRedirect (b "REDIRECT") = ROk (VTup [VStr []; VBool false]) /\
  classify KMoved (b "MOVED 3999 127.0.0.1:6381") = ROk (VTup [VStr (b "127.0.0.1:6381"); VBool true]) /\
  classify KAsk (b "ASK 3999 ::1:6381") = ROk (VTup [VStr (b "[::1]:6381"); VBool true]).
Proof. vm_compute. repeat split; reflexivity. Qed.

Example C15_nonvacuous_odd_map :
  let odd := MArr tMap [MStr tBlobString (b "k") None] None in
  run ex_env AToMap odd = RErr EParse /\ run ex_env AAsXRead odd = RErr EParse /\
  run ex_env AToAny odd = RErr EParse /\ run ex_env AAsFtSearch odd = ROk (VTup [VInt 0; VList []]) /\
  run ex_env AToAny (MArr tArray [odd; MInt tInteger 5 None] None) = ROk (VList [VErr EParse; VInt 5]).
Proof. vm_compute. repeat split; reflexivity. Qed.

Example C15_nonvacuous_ft_geo :
  run ex_env AAsFtSearch (MArr tArray [MInt tInteger 2 None; MStr tBlobString (b "a") None; MStr tBlobString (b "1.0") None; MStr tBlobString (b "b") None] None)
    = ROk (VTup [VInt 2; VList [VTup [VStr (b "a"); VNil; VFloat 0]; VTup [VStr (b "1.0"); VNil; VFloat 0]; VTup [VStr (b "b"); VNil; VFloat 0]]]) /\
  run ex_env AAsGeosearch (MArr tArray [MInt tInteger 1 None] None) = RErr EParse /\
  run ex_env AAsGeosearch (MArr tArray [MArr tArray [] None] None) = RErr EParse.
Proof. vm_compute. repeat split; reflexivity. Qed.
