(** C16 — Typed accessors return exactly what the reply encodes.

    Spec side: data-level encoders of the reply shapes the server uses ([blob], [int], [arr], [mapm], [flat],
    [enc_zscore], [enc_entry], [enc_search3], [enc_doc2], [enc_agg2/3], [enc_loc] … in Proofs/AccFaithful.v).
    Each theorem: accessor (encoding of data) = Ok data, for ALL data (unbounded lists, any strings).

    Float and base-0 integer parsing are library functions: the theorems hold for EVERY environment [e] and
    every float formatting [fmt] such that the library parser reads the server's formatting back
    ([fmt_parse], [fmt_nonempty] — Section hypotheses, discharged by nothing here and listed in
    the SPEC as assumptions; the correspondence run exercises them with Go's FormatFloat / ParseFloat).
    Integers in strings are concrete: every integer-reading accessor reads base ten ([parse_int10], the
    model of strconv.ParseInt(s, 10, 64)); the round trip with the canonical printing, the value of EVERY
    decimal spelling (sign, leading zeros) and the rejection of everything else are proved outright.
    (AsIntMap used base 0 before its repair: [C16_int_map_before_fix_refuted].) *)
From Coq Require Import String List NArith ZArith Bool.
Require Import RV.Model.Base RV.Model.AccBase RV.Model.Accessors RV.Proofs.DecimalProofs RV.Proofs.AccFaithful.
Import ListNotations.
Open Scope N_scope.

(** ---- integers, strings, booleans ---- *)
Theorem C16_decimal_roundtrip : forall z n,
  ((int64_min <= z <= int64_max)%Z -> parse_int10 (print_Z z) = Some z) /\
  (n <= uint64_max -> parse_uint10 (print_N n) = Some n).
Proof. intros z n. split; [apply parse_print_int|apply parse_print_uint]. Qed.

Theorem C16_int_faithful : forall z,
  to_int64 (int z) = ROk z /\ as_int64 (int z) = ROk z /\ as_bool (int z) = ROk (negb (z =? 0)%Z) /\
  as_uint64 (int z) = ROk (Z.to_N (z mod two64)).
Proof. exact int_faithful. Qed.

Theorem C16_int_string_faithful : forall z n t, (t = tBlobString \/ t = tSimpleString) ->
  ((int64_min <= z <= int64_max)%Z -> as_int64 (MStr t (print_Z z) None) = ROk z) /\
  (n <= uint64_max -> as_uint64 (MStr t (print_N n) None) = ROk n).
Proof. intros z n t Ht. split; intro H; [now apply int_string_faithful|now apply uint_string_faithful]. Qed.

Theorem C16_string_faithful : forall s t, (t = tBlobString \/ t = tSimpleString) ->
  to_string (MStr t s None) = ROk s /\ as_bytes (MStr t s None) = ROk s /\ as_reader (MStr t s None) = ROk s /\
  as_bool (MStr t s None) = ROk (bytes_eqb s (b "OK")).
Proof. exact string_faithful. Qed.

Theorem C16_bool_faithful : forall x, to_bool (boolean x) = ROk x /\ as_bool (boolean x) = ROk x.
Proof. exact bool_faithful. Qed.

(** every decimal spelling is read as its decimal value: optional sign, then digits — leading zeros are zeros
    (no octal), and out-of-range values are rejected *)
Theorem C16_decimal_spellings : forall sg ds, ds <> [] -> Forall (fun c => is_digit c = true) ds ->
  parse_int10 (sign_bytes sg ++ ds) = if in_int64 (signed sg (dec_value ds)) then Some (signed sg (dec_value ds)) else None.
Proof. exact parse_int10_decimal. Qed.

(** … and nothing else is an integer: no digits after the sign, or any byte that is not a digit
    (so no 0x / 0b / 0o prefix, no '_' separator, no blank, no exponent) *)
Theorem C16_non_decimal_rejected : forall sg body,
  (body = [] \/ exists c, In c body /\ is_digit c = false) ->
  (sg = None -> match body with c :: _ => (c =? 45) = false /\ (c =? 43) = false | [] => True end) ->
  parse_int10 (sign_bytes sg ++ body) = None.
Proof. exact parse_int10_rejects. Qed.

(** the integer-reading accessors return the decimal reading of every element, whatever its spelling … *)
Theorem C16_int_spelled_faithful : forall s z t (xs : list (bytes * Z)) (ps : list (bytes * (bytes * Z))) tm,
  (t = tBlobString \/ t = tSimpleString) -> (tm = tArray \/ tm = tSet \/ tm = tMap) ->
  (parse_int10 s = Some z -> as_int64 (MStr t s None) = ROk z) /\
  (Forall (fun sz => fst sz <> [] /\ parse_int10 (fst sz) = Some (snd sz)) xs ->
     as_int_slice (arr (map (fun sz => blob (fst sz)) xs)) = ROk (map snd xs)) /\
  (Forall (fun kv => fst (snd kv) <> [] /\ parse_int10 (fst (snd kv)) = Some (snd (snd kv))) ps ->
     as_int_map (MArr tm (flat blob (fun sz => blob (fst sz)) ps) None) = ROk (set_all (map (fun kv => (fst kv, snd (snd kv))) ps) [])).
Proof.
  intros s z t xs ps tm Ht Htm. split; [intro H; rewrite as_int64_str by exact Ht; now rewrite H|].
  split; [apply int_slice_spelled|now apply int_map_spelled].
Qed.

(** … and report a number error for an element that is not a decimal integer *)
Theorem C16_int_non_decimal_error : forall s k t, s <> [] -> parse_int10 s = None -> (t = tArray \/ t = tSet \/ t = tMap) ->
  as_int64 (blob s) = RErr ENum /\ as_int_slice (arr [blob s]) = RErr ENum /\
  as_int_map (MArr t [blob k; blob s] None) = RErr ENum.
Proof. exact int_accessors_reject. Qed.

(** the original AsIntMap used strconv.ParseInt(s, 0, 64): a value "0100" came back as 64 *)
Theorem C16_int_map_before_fix_refuted : forall pi0 : bytes -> option Z, pi0 (b "0100") = Some 64%Z ->
  as_int_map_before_fix pi0 (arr [blob (b "mode"); blob (b "0100")]) = ROk [(b "mode", 64%Z)] /\
  as_int_map (arr [blob (b "mode"); blob (b "0100")]) = ROk [(b "mode", 100%Z)].
Proof. exact int_map_before_fix_octal. Qed.

(** ---- arrays keep every element in order ---- *)
Theorem C16_array_faithful : forall l t, (t = tArray \/ t = tSet) -> to_array (MArr t l None) = ROk l.
Proof. exact to_array_faithful. Qed.

Theorem C16_str_slice_faithful : forall ss t, (t = tArray \/ t = tSet) -> as_str_slice (MArr t (map blob ss) None) = ROk ss.
Proof. exact str_slice_faithful. Qed.

Theorem C16_int_slice_faithful : forall zs : list (bool * Z),
  Forall (fun bz => (int64_min <= snd bz <= int64_max)%Z) zs ->
  as_int_slice (arr (map (fun bz => enc_int (fst bz) (snd bz)) zs)) = ROk (map snd zs).
Proof. exact int_slice_faithful. Qed.

Theorem C16_bool_slice_faithful : forall xs, as_bool_slice (arr (map boolean xs)) = ROk xs.
Proof. exact bool_slice_faithful. Qed.

(** ---- maps keep every pair; a repeated field keeps its last value ---- *)
Theorem C16_str_map_faithful : forall (ps : list (bytes * bytes)) t, (t = tArray \/ t = tSet \/ t = tMap) ->
  as_str_map (MArr t (flat blob blob ps) None) = ROk (set_all ps []).
Proof. exact str_map_faithful. Qed.

Theorem C16_strmap_last_wins : forall (ps : list (bytes * bytes)) k, mget k (set_all ps []) = assoc_last k ps.
Proof. exact str_map_last_wins. Qed.

Theorem C16_map_faithful : forall (ps : list (bytes * msg)),
  (forall t, (t = tArray \/ t = tSet \/ t = tMap) -> as_map (MArr t (flat blob (fun v => v) ps) None) = ROk (set_all ps [])) /\
  to_map (mapm (flat blob (fun v => v) ps)) = ROk (set_all ps []) /\
  (forall k, mget k (set_all ps []) = assoc_last k ps).
Proof.
  intro ps. split; [intros; now apply as_map_faithful|]. split; [apply to_map_faithful|].
  intro k. rewrite mget_set_all. now destruct (assoc_last k ps).
Qed.

Theorem C16_decode_slice_of_json_faithful : forall e (docs : list bytes),
  Forall (fun d => json_ok e d = true) docs -> decode_slice_of_json e (arr (map blob docs)) = ROk (length docs).
Proof. exact decode_slice_of_json_faithful. Qed.

(** ---- streams (no floats involved) ---- *)
Theorem C16_xrange_faithful : forall xs : list entry,
  as_xrange (arr (map enc_entry xs)) = ROk (map (fun x => mkXEntry (fst x) (option_map (fun fv => set_all fv []) (snd x))) xs) /\
  as_xrange_slices (arr (map enc_entry xs)) = ROk (map (fun x => mkXSlice (fst x) (snd x)) xs).
Proof. intro xs. split; [apply xrange_faithful|apply xrange_slices_faithful]. Qed.

Theorem C16_xrange_entry_faithful : forall x : entry,
  as_xrange_entry (enc_entry x) = ROk (mkXEntry (fst x) (option_map (fun fv => set_all fv []) (snd x))) /\
  as_xrange_slice (enc_entry x) = ROk (mkXSlice (fst x) (snd x)).
Proof. intro x. split; [apply xrange_entry_faithful|apply xrange_slice_faithful]. Qed.

(** XREAD / XREADGROUP in the RESP3 (map) and RESP2 (array of pairs) shapes *)
Theorem C16_xread_faithful : forall streams : list (bytes * list entry),
  let dec := map (fun kd => (fst kd, map (fun x => mkXEntry (fst x) (option_map (fun fv => set_all fv []) (snd x))) (snd kd))) streams in
  as_xread (mapm (flat blob (fun es => arr (map enc_entry es)) streams)) = ROk (set_all dec []) /\
  as_xread (arr (map (fun kd => arr [blob (fst kd); arr (map enc_entry (snd kd))]) streams)) = ROk (set_all dec []).
Proof.
  intros streams dec. subst dec.
  exact (xread_generic_faithful as_xrange (fun es => arr (map enc_entry es)) _ streams xrange_faithful).
Qed.

Theorem C16_xread_slices_faithful : forall streams : list (bytes * list entry),
  let dec := map (fun kd => (fst kd, map (fun x => mkXSlice (fst x) (snd x)) (snd kd))) streams in
  as_xread_slices (mapm (flat blob (fun es => arr (map enc_entry es)) streams)) = ROk (set_all dec []) /\
  as_xread_slices (arr (map (fun kd => arr [blob (fst kd); arr (map enc_entry (snd kd))]) streams)) = ROk (set_all dec []).
Proof.
  intros streams dec. subst dec.
  exact (xread_generic_faithful as_xrange_slices (fun es => arr (map enc_entry es)) _ streams xrange_slices_faithful).
Qed.

Theorem C16_scan_lmpop_faithful : forall c els k vs,
  (c <= uint64_max -> as_scan_entry (arr [blob (print_N c); arr (map blob els)]) = ROk (c, els)) /\
  as_lmpop (arr [blob k; arr (map blob vs)]) = ROk (k, vs).
Proof. intros. split; [apply scan_faithful|apply lmpop_faithful]. Qed.

Theorem C16_ft_aggregate_faithful : forall total (rows : list row),
  as_ft_aggregate (enc_agg2 total rows) = ROk (total, map (fun r => Some (set_all r [])) rows) /\
  as_ft_aggregate (enc_agg3 total rows) = ROk (total, map (fun r => Some (set_all r [])) rows) /\
  (forall cur, as_ft_aggregate_cursor (arr [enc_agg2 total rows; int cur]) = ROk (cur, total, map (fun r => Some (set_all r [])) rows)) /\
  (forall cur, as_ft_aggregate_cursor (arr [enc_agg3 total rows; int cur]) = ROk (cur, total, map (fun r => Some (set_all r [])) rows)).
Proof.
  intros total rows. split; [apply ft_aggregate2_faithful|]. split; [apply ft_aggregate3_faithful|].
  split; intro cur.
  - apply (ft_aggregate_cursor_faithful (enc_agg2 total rows)); [reflexivity|apply ft_aggregate2_faithful].
  - apply (ft_aggregate_cursor_faithful (enc_agg3 total rows)); [reflexivity|apply ft_aggregate3_faithful].
Qed.

(** ---- everything with floats: for every environment that reads the server's doubles back ---- *)
Section Floats.
Variable e : env.
Variable fmt : N -> bytes.
Hypothesis fmt_parse : forall f, pf e (fmt f) = (f, true).
Hypothesis fmt_nonempty : forall f, fmt f <> [].

Theorem C16_float_faithful : forall f,
  to_float64 e (dbl fmt f) = ROk f /\ as_float64 e (dbl fmt f) = ROk f /\
  as_float64 e (blob (fmt f)) = ROk f /\ as_float64 e (simple (fmt f)) = ROk f.
Proof. intros; apply float_faithful; assumption. Qed.

Theorem C16_float_slice_faithful : forall fs : list (bool * N),
  as_float_slice e (arr (map (fun rf => num fmt (fst rf) (snd rf)) fs)) = ROk (map snd fs).
Proof. intros; apply float_slice_faithful; assumption. Qed.

Theorem C16_int_map_faithful : forall (ps : list (bytes * (bool * Z))) t, (t = tArray \/ t = tSet \/ t = tMap) ->
  Forall (fun kv => (int64_min <= snd (snd kv) <= int64_max)%Z) ps ->
  as_int_map (MArr t (flat blob (fun bz => enc_int (fst bz) (snd bz)) ps) None) =
  ROk (set_all (map (fun kv => (fst kv, snd (snd kv))) ps) []).
Proof. intros; apply int_map_faithful; assumption. Qed.

(** ZSCORE / ZRANGE WITHSCORES / ZPOP*: RESP2 flat array, RESP3 array of pairs; scores as strings or doubles *)
Theorem C16_zscores_faithful : forall r z (zs : list (bytes * N)),
  as_zscore e (arr (enc_zscore fmt r z)) = ROk z /\
  as_zscores e (arr (flat_map (enc_zscore fmt false) zs)) = ROk zs /\
  as_zscores e (arr (map (fun z => arr (enc_zscore fmt r z)) zs)) = ROk zs.
Proof.
  intros r z zs. split; [apply zscore_faithful; assumption|].
  split; [apply zscores_flat_faithful; assumption|apply zscores_nested_faithful; assumption].
Qed.

Theorem C16_zmpop_faithful : forall r k (zs : list (bytes * N)),
  as_zmpop e (arr [blob k; arr (map (fun z => arr (enc_zscore fmt r z)) zs)]) = ROk (k, zs).
Proof. intros; apply zmpop_faithful; assumption. Qed.

(** FT.SEARCH: RESP3 records with optional attributes / score; RESP2 flat reply with or without scores and
    attributes — the RESP2 reply does not say which parts are present, the accessor guesses right when the
    keys are non-empty and do not parse as floats ([key_ok], the explicit validity condition) *)
Theorem C16_ft_search3_faithful : forall total (docs : list doc3),
  as_ft_search e (enc_search3 fmt total docs) = ROk (total, map dec_doc3 docs).
Proof. intros; apply ft_search3_faithful; assumption. Qed.

Theorem C16_ft_search2_faithful : forall ws wa total (docs : list doc2),
  Forall (fun d => key_ok e (fst (fst d))) docs ->
  as_ft_search e (arr (int total :: flat_map (enc_doc2 fmt ws wa) docs)) = ROk (total, map (dec_doc2 ws wa) docs).
Proof. intros; apply ft_search2_faithful; assumption. Qed.

(** GEOSEARCH with every combination of WITHDIST / WITHHASH / WITHCOORD, in both protocols *)
Theorem C16_geosearch_faithful : forall r (ls : list loc),
  as_geosearch e (arr (map (enc_loc fmt r) ls)) = ROk (map dec_loc ls).
Proof. intros; apply geosearch_faithful; assumption. Qed.

End Floats.

Print Assumptions C16_decimal_roundtrip.
Print Assumptions C16_int_faithful.
Print Assumptions C16_decimal_spellings.
Print Assumptions C16_non_decimal_rejected.
Print Assumptions C16_int_spelled_faithful.
Print Assumptions C16_int_non_decimal_error.
Print Assumptions C16_int_map_before_fix_refuted.
Print Assumptions C16_int_string_faithful.
Print Assumptions C16_string_faithful.
Print Assumptions C16_bool_faithful.
Print Assumptions C16_array_faithful.
Print Assumptions C16_str_slice_faithful.
Print Assumptions C16_int_slice_faithful.
Print Assumptions C16_bool_slice_faithful.
Print Assumptions C16_str_map_faithful.
Print Assumptions C16_strmap_last_wins.
Print Assumptions C16_map_faithful.
Print Assumptions C16_decode_slice_of_json_faithful.
Print Assumptions C16_xrange_faithful.
Print Assumptions C16_xrange_entry_faithful.
Print Assumptions C16_xread_faithful.
Print Assumptions C16_xread_slices_faithful.
Print Assumptions C16_scan_lmpop_faithful.
Print Assumptions C16_ft_aggregate_faithful.
Print Assumptions C16_float_faithful.
Print Assumptions C16_float_slice_faithful.
Print Assumptions C16_int_map_faithful.
Print Assumptions C16_zscores_faithful.
Print Assumptions C16_zmpop_faithful.
Print Assumptions C16_ft_search3_faithful.
Print Assumptions C16_ft_search2_faithful.
Print Assumptions C16_geosearch_faithful.

(** non-vacuity: concrete data through concrete encoders, with an environment that satisfies the hypotheses
    on the strings used ([fmt] prints a float given by its bit pattern as a tagged decimal of the bits) *)
Definition ex_fmt (f : N) : bytes := 102 :: print_N f.                 (* "f<bits>" *)
Definition ex_env : env :=
  mkEnv (fun s => match s with 102 :: r => match parse_uint10 r with Some n => (n, true) | None => (0, false) end | _ => (0, false) end)
        (fun _ => 0) (fun _ => true).

Example C16_nonvacuous_zscores :
  as_zscores ex_env (arr (flat_map (enc_zscore ex_fmt false) [(b "a", 7); (b "b", 9)])) = ROk [(b "a", 7); (b "b", 9)] /\
  as_zscores ex_env (arr (map (fun z => arr (enc_zscore ex_fmt true z)) [(b "a", 7); (b "b", 9)])) = ROk [(b "a", 7); (b "b", 9)].
Proof. vm_compute. split; reflexivity. Qed.

Example C16_nonvacuous_search :
  as_ft_search ex_env (arr (int 5 :: flat_map (enc_doc2 ex_fmt true true) [(b "doc:1", 3, [(b "t", b "x")]); (b "doc:2", 4, [])])) =
    ROk (5%Z, [mkDoc (b "doc:1") (Some [(b "t", b "x")]) 3; mkDoc (b "doc:2") (Some []) 4]) /\
  as_ft_search ex_env (enc_search3 ex_fmt 5 [(b "doc:1", Some [(b "t", b "x")], Some 3); (b "doc:2", None, None)]) =
    ROk (5%Z, [mkDoc (b "doc:1") (Some [(b "t", b "x")]) 3; mkDoc (b "doc:2") None 0]).
Proof. vm_compute. split; reflexivity. Qed.

Example C16_nonvacuous_xread_geo_map :
  as_xread (mapm (flat blob (fun es => arr (map enc_entry es)) [(b "s1", [(b "1-0", Some [(b "f", b "v"); (b "f", b "w")]); (b "2-0", None)])])) =
    ROk [(b "s1", [mkXEntry (b "1-0") (Some [(b "f", b "w")]); mkXEntry (b "2-0") None])] /\
  as_geosearch ex_env (arr (map (enc_loc ex_fmt false) [(b "p", Some 11, Some 5%Z, Some (21, 22)); (b "q", None, None, None)])) =
    ROk [mkGeo (b "p") 21 22 11 5; mkGeo (b "q") 0 0 0 0] /\
  as_int64 (blob (print_Z (-9223372036854775808))) = ROk (-9223372036854775808)%Z.
Proof. vm_compute. repeat split; reflexivity. Qed.

Example C16_nonvacuous_spellings :
  as_int64 (blob (b "0100")) = ROk 100%Z /\ as_int64 (blob (b "-0755")) = ROk (-755)%Z /\ as_int64 (blob (b "+09")) = ROk 9%Z /\
  as_int64 (blob (b "0x1F")) = RErr ENum /\ as_int64 (blob (b "1_000")) = RErr ENum /\ as_int64 (blob (b "0b11")) = RErr ENum /\
  as_int64 (blob (b "9223372036854775808")) = RErr ENum /\
  as_int_slice (arr [blob (b "010"); blob (b "-0")]) = ROk [10%Z; 0%Z] /\
  as_int_map (mapm [blob (b "k"); blob (b "0017")]) = ROk [(b "k", 17%Z)] /\
  as_int_map (mapm [blob (b "k"); blob (b "0o17")]) = RErr ENum.
Proof. vm_compute. repeat split; reflexivity. Qed.
