(** C07 — Cached replies expire at the earlier of client and server TTL.

    Store level (lru.go, NewSimpleCacheAdapter) and reader glue (pipe.go _backgroundRead as
    Model/CacheWire.v).  Instants are in nanoseconds; [unix_milli] is Time.UnixMilli; the expiry field
    of a message keeps 56 bits ([trunc56]); [min_xat cx sx] is the rule of Update ("server side ttl
    should only shorten client side ttl"): cx when sx = 0 or cx < sx, else sx. *)
From Coq Require Import List NArith ZArith Bool.
Require Import RV.Model.Base RV.Model.Lru RV.Model.Adapter RV.Model.CacheKey RV.Model.CacheWire.
Require Import RV.Proofs.LruBase RV.Proofs.LruSteps RV.Proofs.LruAnswers RV.Proofs.LruHist
               RV.Proofs.AdapterProofs RV.Proofs.CacheWireProofs.
Import ListNotations.
Open Scope Z_scope.

(** Every completed entry of every reachable store carries the expiry
      min_xat (UnixMilli(flight_now + ttl) mod 2^56) (server expiry of the committed reply)
    where (ttl, flight_now) are those of a lookup of that command in the history (the one that started
    the flight) and the reply is one handed to Update for that command. *)
Theorem C07_expiry : forall g ops e,
  Forall wf_op ops -> In e (order (run g ops init)) -> pending e = false ->
  exists ttl now v,
    (exists o, In o ops /\ requests o (ekey e) (ecmd e) ttl now) /\
    In (Update (ekey e) (ecmd e) v) ops /\
    m_xat (eval e) = min_xat (trunc56 (unix_milli (now + ttl))) (m_xat v).
Proof. exact expiry_rule. Qed.
Print Assumptions C07_expiry.

(** the rule is "the earlier of the two, the client's when the server reports none" *)
Theorem C07_min_rule : forall cx sx, 0 <= sx -> min_xat cx sx = if sx =? 0 then cx else Z.min cx sx.
Proof. exact min_xat_spec. Qed.
Print Assumptions C07_min_rule.

(** the server expiry the reader attaches: arrival instant + PTTL when PTTL >= 0, none for -1 / -2
    (and none in the static-TTL form, where the reply is committed as read from the wire) *)
Theorem C07_wire_expiry : forall cx v p now,
  0 <= m_xat v ->
  let sv := with_pttl (set_mark v true) (m_intlen p) now in
  min_xat cx (m_xat sv) =
  if 0 <=? m_intlen p
  then (let sx := trunc56 (unix_milli (now + m_intlen p * 1000000)) in if sx =? 0 then cx else Z.min cx sx)
  else if m_xat v =? 0 then cx else Z.min cx (m_xat v).
Proof. exact wire_expiry. Qed.
Print Assumptions C07_wire_expiry.

Theorem C07_wire_standard : forall c0 c1 c2 cmd c4 pre p v now k c,
  w_optin c0 = true -> w_static c4 = false -> w_mget cmd = false ->
  cache_key (w_scr cmd) (w_tokens cmd) = Ok (k, c) ->
  cache_wire [c0; c1; c2; cmd; c4] 4 (Msg 42 0 [] (pre ++ [p; v]) 0 false) now =
  Ok [SUpdate k c (with_pttl (set_mark v true) (m_intlen p) now)].
Proof. exact wire_standard. Qed.
Print Assumptions C07_wire_standard.

Theorem C07_wire_static : forall c0 cmd m now k c,
  w_static cmd = true -> cache_key (w_scr cmd) (w_tokens cmd) = Ok (k, c) ->
  cache_wire [c0; cmd] 1 m now = if is_redis_err m then Ok [SCancel k c m] else Ok [SUpdate k c (set_mark m true)].
Proof. exact wire_static. Qed.
Print Assumptions C07_wire_static.

(** MGET / JSON.MGET form: member j of the reply is committed under key j of the command with the PTTL
    reply at the same position j (each key gets its own server expiry) *)
Theorem C07_wire_mget : forall s cc replies now msgs i,
  (forall j, (j < length msgs)%nat -> exists k p, nth_error s (S (i + j)) = Some k /\ nth_error replies (i + j) = Some p) ->
  exists l, mget_calls s cc replies msgs i now = Ok l /\ length l = length msgs /\
    forall j cp, nth_error msgs j = Some cp ->
      exists k p, nth_error s (S (i + j)) = Some k /\ nth_error replies (i + j) = Some p /\
                  nth_error l j = Some (SUpdate k cc (with_pttl (set_mark cp true) (m_intlen p) now)).
Proof. intros. apply mget_calls_spec. assumption. Qed.
Print Assumptions C07_wire_mget.

(** A completed entry is returned by Flight iff the instant is strictly before its expiry; at or after
    it the call is a miss (and starts a new flight). *)
Theorem C07_hit_iff : forall g ops k c ttl now e,
  Forall wf_op ops ->
  let s := run g ops init in
  In e (order s) -> kc e = (k, c) -> pending e = false ->
  (unix_milli now < m_xat (eval e) -> snd (step g s (Flight k c ttl now)) = OFlight (eval e) (Some (eid e))) /\
  (m_xat (eval e) <= unix_milli now -> snd (step g s (Flight k c ttl now)) = OFlight (pending_msg ttl now) None).
Proof.
  intros g ops k c ttl now e Hw s He Hk Hp. apply hit_iff; try assumption. apply inv_run; [exact Hw|apply inv_init].
Qed.
Print Assumptions C07_hit_iff.

(** No hit at or after the expiry, whichever operation (Flight, Flights, their critical sections)
    answers, in any history. *)
Theorem C07_no_hit_after_expiry : forall g ops o k c v,
  Forall wf_op ops -> In (AHit v) (answers k c o (snd (step g (run g ops init) o))) ->
  unix_milli (now_of o) < m_xat v.
Proof.
  intros g ops o k c v Hw H. destruct (step_hit g _ o k c v (inv_run g ops init Hw inv_init) H) as [e [_ [_ [_ [_ Hlt]]]]]. exact Hlt.
Qed.
Print Assumptions C07_no_hit_after_expiry.

(** Update reports the expiry it stored (pipe.go copies it into the reply handed to the caller), and
    CachePXAT / CachePTTL / CacheTTL report that same expiry. *)
Theorem C07_update_reports : forall g s k c v e,
  lookup k c (order s) = Some e -> pending e = true ->
  snd (step g s (Update k c v)) =
  OUpdate (min_xat (m_xat (eval e)) (m_xat v)) (Some (Rel (eid e) (set_xat v (min_xat (m_xat (eval e)) (m_xat v))))).
Proof. intros. apply update_reports; assumption. Qed.
Print Assumptions C07_update_reports.

Theorem C07_reports : forall m now,
  m_xat m <> 0 ->
  cache_pxat m = m_xat m /\
  cache_pttl m now = Z.max 0 (m_xat m - unix_milli now) /\
  cache_ttl m now = (if 0 <? cache_pttl m now then (cache_pttl m now + 999) / 1000 else cache_pttl m now).
Proof. intros m now H. split; [apply cache_pxat_spec; exact H|]. split; [apply cache_pttl_spec; exact H|apply cache_ttl_spec]. Qed.
Print Assumptions C07_reports.

(** the 56-bit expiry field holds every expiry in [0, 2^56) exactly *)
Theorem C07_expiry_encoding : forall x, (0 <= x < two56 -> trunc56 x = x) /\ 0 <= trunc56 x < two56.
Proof. intro x. split; [apply trunc56_id|apply trunc56_range]. Qed.
Print Assumptions C07_expiry_encoding.

(** NewSimpleCacheAdapter: same rule at Update (the flight's xat is UnixMilli(flight_now + ttl)), and a
    stored reply is served iff it is completed and the instant is before its expiry. *)
Theorem C07_adapter_expiry : forall s fl k c v ae,
  aflights s = Some fl -> flookup k c fl = Some (Some ae) ->
  let px := min_xat (axat ae) (m_xat v) in
  let v' := if (axat ae <? m_xat v) || (m_xat v =? 0) then set_xat v (trunc56 (axat ae)) else v in
  snd (aupdate s k c v) = AOUpdate px (Some (Rel (aid ae) v')) /\
  sget (k ++ c) (astore (fst (aupdate s k c v))) = v' /\
  (0 <= axat ae < two56 -> m_xat v' = px).
Proof. exact aupdate_expiry. Qed.
Print Assumptions C07_adapter_expiry.

Theorem C07_adapter_flight_xat : forall s fl k c ttl now,
  aflights s = Some fl -> a_live (sget (k ++ c) (astore s)) now = false ->
  (flookup k c fl = None \/ flookup k c fl = Some None) ->
  aslow s k c ttl now =
  (mkA (Some (fset k c (Some (mkAE (anext s) (unix_milli (now + ttl)))) fl)) (astore s) (N.succ (anext s)), AOFlight empty_msg None).
Proof. exact aslow_creates. Qed.
Print Assumptions C07_adapter_flight_xat.

Theorem C07_adapter_hit_iff : forall ops k c ttl now v,
  let s := arun ops ainit in
  In (SR (k ++ c) v) (astore s) -> is_pending_msg v = false ->
  (unix_milli now < m_xat v -> snd (astep s (AFlight k c ttl now)) = AOFlight v None) /\
  (m_xat v <= unix_milli now -> forall w ce, snd (astep s (AFlight k c ttl now)) = AOFlight w ce -> is_pending_msg w = true).
Proof. intros ops k c ttl now v s. apply a_hit_iff. apply ainv_run. Qed.
Print Assumptions C07_adapter_hit_iff.

(** non-vacuity: client TTL 100 ms from t = 5 ms, reply arrives at t = 20 ms with PTTL 30 ms: expiry 50 ms;
    hit at 49.9 ms, miss at 50 ms; with PTTL -1 the expiry is the client's 105 ms *)
Definition ex_g := mkCfg 100000 336 40.
Definition exk : bytes := [107%N]. Definition exc : bytes := [71%N].
Definition ex_reply (pttl : Z) := with_pttl (set_mark (Msg 36 0 [1%N] [] 0 false) true) pttl 20000000.
Definition ex_ops (pttl : Z) : list op := [Flight exk exc 100000000 5000000; Update exk exc (ex_reply pttl)].

Example C07_nonvacuous :
  map (fun e => m_xat (eval e)) (order (run ex_g (ex_ops 30) init)) = [50] /\
  map (fun e => m_xat (eval e)) (order (run ex_g (ex_ops (-1)) init)) = [105] /\
  answers exk exc (Flight exk exc 1 49999999) (snd (step ex_g (run ex_g (ex_ops 30) init) (Flight exk exc 1 49999999)))
    = [AHit (set_xat (ex_reply 30) 50)] /\
  answers exk exc (Flight exk exc 1 50000000) (snd (step ex_g (run ex_g (ex_ops 30) init) (Flight exk exc 1 50000000)))
    = [AMiss] /\
  cache_ttl (set_xat (ex_reply 30) 50) 48999999 = 1 /\ cache_pttl (set_xat (ex_reply 30) 50) 48999999 = 2.
Proof. repeat split; vm_compute; reflexivity. Qed.
