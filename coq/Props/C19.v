(** C19 — Cluster commands reach the node that owns their slot.

    Objects: [parse_slots] / [parse_shards] / [rebuild] / [pick_slot] (Model/ClusterTopo.v, cluster.go
    parseSlots, parseShards, parseEndpoint, _refresh, _pick) and [do_loop] (Model/ClusterDo.v,
    clusterClient.do with redirectOrNew / shouldRefreshRetry).  Go map iteration order is universally
    quantified ([Permutation]); a concurrent topology refresh is an input of every attempt. *)
From Coq Require Import List Arith NArith ZArith Bool Lia Permutation.
Require Import RV.Model.Base RV.Model.ClusterTopo RV.Model.ClusterSpec RV.Model.ClusterShardSpec RV.Model.Retry RV.Model.ClusterDo.
Require Import RV.Proofs.ClusterTopoProofs RV.Proofs.ClusterSpecProofs RV.Proofs.ClusterShardProofs RV.Proofs.ClusterDoProofs.
Import ListNotations.
Open Scope Z_scope.

(** Topology parsing never crashes, whatever the reply tree, and what it returns can be turned
    into a slot table in every iteration order of the group map without crashing. *)
Theorem C19_parse_total : forall (dh : bytes) (tls : bool) (m : msg) (c : tcfg),
  parse_slots dh m <> Panic /\ parse_shards dh tls m <> Panic /\
  (forall gs l, (parse_slots dh m = Ok gs \/ parse_shards dh tls m = Ok gs) ->
                Permutation (map snd gs) l -> rebuild c l <> Panic).
Proof.
  intros dh tls m c. split; [apply parse_slots_total|]. split; [apply parse_shards_total|].
  intros gs l H P. unfold rebuild.
  assert (F : Forall group_headed gs).
  { destruct H as [H|H]; [apply (parse_slots_headed _ _ _ H)|apply (parse_shards_headed _ _ _ _ H)]. }
  rewrite (headed_groups_ok gs F l P). discriminate.
Qed.
Print Assumptions C19_parse_total.

(** Every group starts with its primary, group keys are distinct (both reply formats). *)
Theorem C19_parse_primary_first : forall dh tls m gs,
  parse_slots dh m = Ok gs \/ parse_shards dh tls m = Ok gs ->
  NoDup (map fst gs) /\ forall k g, In (k, g) gs -> hd_error (g_nodes g) = Some k.
Proof.
  intros dh tls m gs H.
  assert (X : Forall group_headed gs /\ NoDup (keys gs)).
  { destruct H as [H|H]; [apply (parse_slots_headed _ _ _ H)|apply (parse_shards_headed _ _ _ _ H)]. }
  destruct X as [F ND]. split; [exact ND|]. intros k g Hin. rewrite Forall_forall in F. exact (F _ Hin).
Qed.
Print Assumptions C19_parse_primary_first.

(** CLUSTER SLOTS: a reply that encodes the abstract answer [es] is parsed into groups that carry
    exactly the listed ranges under their primaries, and only nodes with a known endpoint. *)
Theorem C19_parse_slots_spec : forall dh es,
  exists gs, parse_slots dh (enc_slots es) = Ok gs /\
    (forall e m, In e es -> entry_master dh e = Some m ->
        exists g, assoc_get m gs = Some g /\ In (entry_range e) (g_slots g) /\ hd_error (g_nodes g) = Some m) /\
    (forall k g r, In (k, g) gs -> In r (g_slots g) ->
        exists e, In e es /\ entry_master dh e = Some k /\ r = entry_range e) /\
    (forall k g a, In (k, g) gs -> In a (g_nodes g) ->
        exists e n, In e es /\ In n (se_nodes e) /\ node_addr dh n = Some a).
Proof.
  intros dh es. destruct (parse_slots_spec dh es) as [gs [E [ND HD HAS ONLY NODES]]].
  exists gs. split; [exact E|]. split; [|split; [exact ONLY|exact NODES]].
  intros e m Hin EM. destruct (HAS e m Hin EM) as [g [G Hr]]. exists g. split; [exact G|]. split; [exact Hr|].
  rewrite Forall_forall in HD. exact (HD _ (assoc_get_In _ _ _ G)).
Qed.
Print Assumptions C19_parse_slots_spec.

(** CLUSTER SHARDS: a node is kept only if its health is "online" and its endpoint is known. *)
Theorem C19_parse_shards_nodes : forall dh tls ns nodes m',
  shard_nodes dh tls ns [] None = (nodes, m') ->
  forall a, In a nodes -> exists n, In n ns /\ shard_node_online n = true /\ shard_node_addr dh tls n = Some a.
Proof.
  intros dh tls ns nodes m' H a Ha. destruct (shard_nodes_kept dh tls ns [] None nodes m' H a Ha) as [[]|X]; exact X.
Qed.
Print Assumptions C19_parse_shards_nodes.

(** The slot table: every slot of a listed range (clipped to [0,16384), ranges starting below 0 are
    ignored by the loop) goes to the primary of the listing group, provided every element listing
    the slot names the same primary; in every iteration order of the group map. *)
Theorem C19_table : forall dh es c e m s,
  t_kind c <> CfgReplicaOnly ->
  In e es -> entry_master dh e = Some m -> covers (entry_range e) s = true ->
  (forall e' m', In e' es -> covers (entry_range e') s = true -> entry_master dh e' = Some m' -> m' = m) ->
  exists gs, parse_slots dh (enc_slots es) = Ok gs /\
             forall l t, Permutation (map snd gs) l -> rebuild c l = Ok t -> tb_w t s = Some m.
Proof.
  intros dh es c e m s Hk Hin EM Hc Hu.
  destruct (slots_table dh es c e m s Hk Hin EM Hc Hu) as [gs [E W]]. exists gs. split; [exact E|].
  intros l t P R. unfold rebuild in R. destruct (groups_ok l); [|discriminate]. inversion R; subst. cbn [tb_w]. now apply W.
Qed.
Print Assumptions C19_table.

Theorem C19_table_unlisted : forall dh es c s,
  (forall e, In e es -> covers (entry_range e) s = false) ->
  exists gs, parse_slots dh (enc_slots es) = Ok gs /\
             forall l t, Permutation (map snd gs) l -> rebuild c l = Ok t -> tb_w t s = None.
Proof.
  intros dh es c s Hn. destruct (slots_table_unlisted dh es c s Hn) as [gs [E W]]. exists gs. split; [exact E|].
  intros l t P R. unfold rebuild in R. destruct (groups_ok l); [|discriminate]. inversion R; subst. cbn [tb_w]. now apply W.
Qed.
Print Assumptions C19_table_unlisted.

(** CLUSTER SHARDS: a reply that encodes the abstract answer [l] is parsed into one group per shard
    primary (the last online master entry with an endpoint); the group carries the shard's ranges,
    starts with the primary, and contains only nodes that are online and have an endpoint. *)
Theorem C19_parse_shards_spec : forall dh tls l,
  exists gs, parse_shards dh tls (enc_shards l) = Ok gs /\
    NoDup (map fst gs) /\
    (forall k g, In (k, g) gs ->
        hd_error (g_nodes g) = Some k /\
        exists s, In s l /\ shard_primary dh tls s = Some k /\ g_slots g = sd_ranges s /\
                  forall a, In a (g_nodes g) -> exists n, In n (sd_nodes s) /\ hn_online n = true /\ hnode_addr dh tls n = Some a) /\
    (forall s p, In s l -> shard_primary dh tls s = Some p -> assoc_get p gs <> None).
Proof.
  intros dh tls l. destruct (parse_shards_spec dh tls l) as [gs [E [ND HD FROM HAS]]].
  exists gs. split; [exact E|]. split; [exact ND|]. split; [|exact HAS].
  intros k g Hin. split; [rewrite Forall_forall in HD; exact (HD _ Hin)|].
  destruct (FROM k g Hin) as [s [I [P [S K]]]]. exists s. split; [exact I|]. split; [exact P|]. split; [exact S|].
  intros a Ha. specialize (K a Ha). unfold kept_of in K.
  destruct (hkept dh tls (sd_nodes s) [] None) as [kept m'] eqn:HK. cbn [fst] in K.
  destruct (hkept_sound dh tls _ _ _ _ _ HK a K) as [[]|X]. exact X.
Qed.
Print Assumptions C19_parse_shards_spec.

(** … and the table built from it sends every slot of a listed range to the shard's primary, in
    every iteration order, when shards have distinct primaries and all listers of the slot agree *)
Theorem C19_table_shards : forall dh tls l c sh m r s,
  t_kind c <> CfgReplicaOnly ->
  In sh l -> shard_primary dh tls sh = Some m -> In r (sd_ranges sh) -> covers r s = true ->
  (forall sh' m', In sh' l -> shard_primary dh tls sh' = Some m' ->
      (m' = m -> sh' = sh) /\ ((exists r', In r' (sd_ranges sh') /\ covers r' s = true) -> m' = m)) ->
  exists gs, parse_shards dh tls (enc_shards l) = Ok gs /\
             forall o t, Permutation (map snd gs) o -> rebuild c o = Ok t -> tb_w t s = Some m.
Proof.
  intros dh tls l c sh m r s Hk Hin Pm Hr Hc Hu.
  destruct (shards_table dh tls l c sh m r s Hk Hin Pm Hr Hc Hu) as [gs [E W]]. exists gs. split; [exact E|].
  intros o t P R. unfold rebuild in R. destruct (groups_ok o); [|discriminate]. inversion R; subst. cbn [tb_w]. now apply W.
Qed.
Print Assumptions C19_table_shards.

(** For arbitrary groups (either reply format, any order): the table entry is the primary of the
    last group in iteration order that lists the slot; with a single lister, of that group. *)
Theorem C19_table_groups : forall c l t s g p,
  rebuild c l = Ok t -> t_kind c <> CfgReplicaOnly ->
  In g l -> lists g s = true -> (forall g', In g' l -> lists g' s = true -> g' = g) ->
  primary g = Some p -> tb_w t s = Some p.
Proof.
  intros c l t s g p R Hk Hin Hl Hu Hp. unfold rebuild in R. destruct (groups_ok l); [|discriminate].
  inversion R; subst. cbn [tb_w]. eapply wslot_default_unique; eauto.
Qed.
Print Assumptions C19_table_groups.

(** A keyed command's send at label [retry:] — the first send and every send after a retry — goes
    to the connection the table (as refreshed so far) holds for its slot. *)
Theorem C19_route : forall fuel c slot retryable st w attempts redirects ct env tr out st',
  do_loop (S fuel) c slot retryable false st PhRetry w attempts redirects (ct :: env) = (tr, out, st') ->
  k_ctx_call (ct_tick ct) = false ->
  forall d, tb_w (cs_table (install st ct)) slot = Some d ->
  exists s rest, tr = s :: rest /\ s_to s = d /\ s_kind s = SPlain /\ s_why s = w.
Proof.
  intros fuel c slot retryable st w attempts redirects ct env tr out st' H CC d Hd.
  destruct (do_loop_chain c slot retryable false _ _ _ _ _ _ _ _ _ _ H) as [_ [Hh [Hf _]]].
  destruct (Hf ct env (Nat.lt_0_succ fuel) eq_refl CC d) as [s [rest [-> Hs]]].
  { unfold dest_of, pick_slot. cbn [andb]. exact Hd. }
  exists s, rest. cbn in Hh. destruct Hh as [Hw Hk]. auto.
Qed.
Print Assumptions C19_route.

(** Redirects: in the trace of one call every send is justified by the reply before it — after
    MOVED a the next send is the plain command to a, after ASK a it is [ASKING; command] to a, a
    retry follows only a retry-class reply of a retryable command under the policy (see C28), an expired connection is followed by a transparent
    re-send, and nothing follows any other reply.  The reply handed to the caller is the last reply
    on the wire (or the context error when the last attempt was not written).  With
    MaxMovedRedirections = max > 0 at most max redirects are followed.  Enough fuel = one step per
    environment item. *)
Theorem C19_moved_ask : forall c slot retryable to_replica st env tr out st',
  cluster_do c slot retryable to_replica st env = (tr, out, st') ->
  chain_ok c retryable tr /\
  out <> COutOfFuel /\
  (forall r, out = CDone r -> r = RCtx \/ exists s, tr <> [] /\ sreply (last tr s) = r) /\
  (0 < cc_max c -> Z.of_nat (credirects tr) <= cc_max c).
Proof.
  intros c slot retryable to_replica st env tr out st' H. unfold cluster_do in H.
  split; [exact (proj1 (do_loop_chain c slot retryable to_replica _ _ _ _ _ _ _ _ _ _ H))|].
  split; [eapply do_loop_fuel; [|exact H]; lia|].
  split.
  - intros r Ho. destruct (do_loop_final c slot retryable to_replica _ _ _ _ _ _ _ _ _ _ r H Ho) as [X|[s [_ [N S]]]]; [now left|right; eauto].
  - intro Hm. pose proof (do_loop_redirect_bound c slot retryable to_replica _ _ _ _ _ _ _ _ _ _ Hm (Z.lt_le_incl _ _ Hm) H) as B.
    cbn in B. lia.
Qed.
Print Assumptions C19_moved_ask.

(** ---- non-vacuity ---- *)
Definition ex_h (n : N) : bytes := [49; 48; 46; 48; 46; 48; 46; n]%N.   (* "10.0.0.x" *)
Definition ex_es : list sentry :=
  [ mkSentry 0 8191 [mkSnode (ex_h 49) 7000; mkSnode (ex_h 50) 7001];
    mkSentry 8192 16383 [mkSnode (ex_h 51) 7002; mkSnode [63%N] 7003];
    mkSentry 20000 20010 [mkSnode (ex_h 52) 7004] ].

Example C19_nonvacuous_table :
  match parse_slots [] (enc_slots ex_es) with
  | Ok gs => match rebuild (mkTcfg CfgDefault (fun _ _ => 0) (fun _ => O)) (map snd gs) with
             | Ok t => tb_w t 100 = Some (ex_h 49, 7000) /\ tb_w t 8192 = Some (ex_h 51, 7002) /\
                       length gs = 3%nat /\
                       option_map g_nodes (assoc_get (ex_h 51, 7002) gs) = Some [(ex_h 51, 7002)]
             | _ => False
             end
  | _ => False
  end.
Proof. vm_compute. repeat split; reflexivity. Qed.

Example C19_nonvacuous_shards :
  let l := [ mkShard [(0, 8191)] [mkHnode (ex_h 49) 7000 0 false true; mkHnode (ex_h 50) 7001 0 true true; mkHnode (ex_h 51) 7002 0 false false];
             mkShard [(8192, 16383)] [mkHnode (ex_h 52) 7003 7103 true true] ] in
  match parse_shards [] true (enc_shards l) with
  | Ok gs => match rebuild (mkTcfg CfgDefault (fun _ _ => 0) (fun _ => O)) (map snd gs) with
             | Ok t => tb_w t 5 = Some (ex_h 50, 7001) /\ tb_w t 9000 = Some (ex_h 52, 7103) /\
                       option_map g_nodes (assoc_get (ex_h 50, 7001) gs) = Some [(ex_h 50, 7001); (ex_h 49, 7000)]
             | _ => False
             end
  | _ => False
  end.
Proof. vm_compute. repeat split; reflexivity. Qed.

Definition ex_a (n : Z) : addr := (ex_h 49, n).
Definition ex_tick (r : reply) : ctick := mkCtick (mkTick r false false false false None) None 0.

(** MOVED to 7001, ASK to 7002, value: three sends, the third with ASKING *)
Example C19_nonvacuous_chain :
  let c := mkCcfg (mkPolicy true (fun _ _ => 0) false) 0 in
  let st := mkCstate (mkTable (fun _ => Some (ex_a 7000)) (fun _ => []) false false) [ex_a 7000; ex_a 7001] in
  let '(tr, out, _) := cluster_do c 42 false false st [ex_tick (RMoved (ex_a 7001)); ex_tick (RAsk (ex_a 7002)); ex_tick (RVal 1)] in
  map (fun s => (snd (s_to s), s_kind s)) tr = [(7000, SPlain); (7001, SPlain); (7002, SAsking)] /\ out = CDone (RVal 1).
Proof. vm_compute. split; reflexivity. Qed.
