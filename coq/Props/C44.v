(** C44 — Redis URLs map to the documented options.

    [parse_url e u] models ParseURL on the URL [u] as parsed by net/url, for ANY behaviour [e] of the
    library functions net.SplitHostPort, time.ParseDuration and strings.TrimSpace (Section-style
    parameters packed in the record [env]; the correspondence run instantiates them with the values the
    Go library returned).  All statements quantify over every environment and every parsed URL (any
    scheme, credentials, host, path and query multimap, repeated keys included).

    The statements are about the repaired code (fix: write_timeout went into Dialer.Timeout);
    [C44_write_timeout_before_fix_refuted] records what the original code did. *)
From Coq Require Import String List NArith ZArith Bool.
Require Import RV.Model.Base RV.Model.AccBase RV.Model.Url RV.Proofs.UrlProofs.
Import ListNotations.
Open Scope N_scope.

(** ParseURL never panics, rejects exactly under the condition [rejected], and otherwise returns exactly
    the record [expected] (one closed form per option, each mentioning only its own part of the URL) *)
Theorem C44_mapping : forall e u,
  (rejected e u = false -> parse_url e u = Ok (expected e u)) /\
  (rejected e u = true -> exists k, parse_url e u = Err k) /\
  parse_url e u <> Panic.
Proof. exact parse_url_spec. Qed.
Print Assumptions C44_mapping.

(** the same mapping spelled out part by part against the library functions: credentials, scheme
    (TLS / unix dialer), address or socket path + addr list, database (db parameter, else path),
    dial_timeout -> Dialer.Timeout, write_timeout -> ConnWriteTimeout, protocol, client_cache,
    max_retries, client_name, master_set, skip_verify *)
Theorem C44_mapping_parts : forall e u o, parse_url e u = Ok o ->
  username o = match user u with Some (n, _) => n | None => [] end /\
  password o = match user u with Some (_, Some p) => p | _ => [] end /\
  (tls o <> None <-> is_tls_scheme (scheme u) = true) /\
  unix_dial o = is_unix_scheme (scheme u) /\
  init_address o =
    (if is_unix_scheme (scheme u) then [trim_space e (path u)] else [snd (parse_addr e (hostname u) (host u))])
    ++ map (fun a => snd (parse_addr e (hostname u) a)) (q_all (query u) (b "addr")) /\
  (forall t, tls o = Some t -> server_name t = fst (parse_addr e (hostname u) (host u))) /\
  (q_has (query u) (b "db") = true -> parse_int10 (q_get (query u) (b "db")) = Some (select_db o)) /\
  (q_has (query u) (b "db") = false -> is_unix_scheme (scheme u) = false ->
     forall x d, split_byte 47 (path u) = [x; d] -> parse_int10 d = Some (select_db o)) /\
  (q_has (query u) (b "db") = false -> (is_unix_scheme (scheme u) = true \/ split_byte 47 (path u) = [path u]) -> select_db o = 0%Z) /\
  (q_has (query u) (b "dial_timeout") = true -> parse_duration e (q_get (query u) (b "dial_timeout")) = Some (dial_timeout o)) /\
  (q_has (query u) (b "dial_timeout") = false -> dial_timeout o = 0%Z) /\
  (q_has (query u) (b "write_timeout") = true -> parse_duration e (q_get (query u) (b "write_timeout")) = Some (conn_write_timeout o)) /\
  (q_has (query u) (b "write_timeout") = false -> conn_write_timeout o = 0%Z) /\
  always_resp2 o = bytes_eqb (q_get (query u) (b "protocol")) (b "2") /\
  disable_cache o = bytes_eqb (q_get (query u) (b "client_cache")) (b "0") /\
  disable_retry o = bytes_eqb (q_get (query u) (b "max_retries")) (b "0") /\
  client_name o = q_get (query u) (b "client_name") /\
  master_set o = q_get (query u) (b "master_set") /\
  (forall t, tls o = Some t ->
     (q_has (query u) (b "skip_verify") = false -> skip_verify t = false) /\
     (q_has (query u) (b "skip_verify") = true -> q_get (query u) (b "skip_verify") = [] -> skip_verify t = true) /\
     (q_has (query u) (b "skip_verify") = true -> q_get (query u) (b "skip_verify") <> [] ->
        parse_bool (q_get (query u) (b "skip_verify")) = Some (skip_verify t))).
Proof. exact mapping_parts. Qed.
Print Assumptions C44_mapping_parts.

(** no parameter overwrites another's option: each option of an accepted URL is determined by its own
    part of the URL alone (the values of its own query key; credentials; scheme/host/path where the
    documented mapping uses them) *)
Theorem C44_noninterference : forall e u u' o o',
  parse_url e u = Ok o -> parse_url e u' = Ok o' ->
  (q_all (query u) (b "dial_timeout") = q_all (query u') (b "dial_timeout") -> dial_timeout o = dial_timeout o') /\
  (q_all (query u) (b "write_timeout") = q_all (query u') (b "write_timeout") -> conn_write_timeout o = conn_write_timeout o') /\
  (q_all (query u) (b "protocol") = q_all (query u') (b "protocol") -> always_resp2 o = always_resp2 o') /\
  (q_all (query u) (b "client_cache") = q_all (query u') (b "client_cache") -> disable_cache o = disable_cache o') /\
  (q_all (query u) (b "max_retries") = q_all (query u') (b "max_retries") -> disable_retry o = disable_retry o') /\
  (q_all (query u) (b "client_name") = q_all (query u') (b "client_name") -> client_name o = client_name o') /\
  (q_all (query u) (b "master_set") = q_all (query u') (b "master_set") -> master_set o = master_set o') /\
  (user u = user u' -> username o = username o' /\ password o = password o') /\
  (scheme u = scheme u' -> host u = host u' -> hostname u = hostname u' ->
   q_all (query u) (b "skip_verify") = q_all (query u') (b "skip_verify") -> tls o = tls o') /\
  (scheme u = scheme u' -> host u = host u' -> hostname u = hostname u' -> path u = path u' ->
   q_all (query u) (b "addr") = q_all (query u') (b "addr") -> init_address o = init_address o') /\
  (scheme u = scheme u' -> path u = path u' ->
   q_all (query u) (b "db") = q_all (query u') (b "db") -> select_db o = select_db o').
Proof. exact query_fields_own. Qed.
Print Assumptions C44_noninterference.

(** the addr list: entry i of the addr parameters is InitAddress[i+1], mapped on its own with the URL's host as the
    only context (a fold over the list with the URL host fixed: no entry influences another); an entry with host and
    port is taken as it is; an entry without host takes the URL's host (localhost if none) and a missing port 6379 *)
Theorem C44_addr_list : forall e u o, parse_url e u = Ok o ->
  forall i a, nth_error (q_all (query u) (b "addr")) i = Some a ->
  nth_error (init_address o) (S i) = Some (snd (parse_addr e (hostname u) a)) /\
  List.length (init_address o) = S (List.length (q_all (query u) (b "addr"))).
Proof. exact addr_entries. Qed.
Print Assumptions C44_addr_list.

Theorem C44_addr_entry : forall e uhost a h p, split_host_port e a = (h, p) ->
  (h <> [] -> p <> [] -> snd (parse_addr e uhost a) = join_host_port h p) /\
  (h = [] -> snd (parse_addr e uhost a) =
     join_host_port (match uhost with [] => b "localhost" | _ => uhost end) (match p with [] => b "6379" | _ => p end)).
Proof.
  intros e uhost a h p H. split.
  - intros Hh Hp. now apply (addr_entry_hosted e uhost a h p).
  - intros ->. now apply addr_entry_hostless.
Qed.
Print Assumptions C44_addr_entry.

(** the documented rule, in full: an addr entry [host:port] is taken as it is, an entry [:port] takes the URL's host
    NAME (u.Hostname(): no port, no brackets; localhost if the URL has none); IPv6 hosts are bracketed when joined.
    (Entries without a port are not documented — addr=<host>:<port> — and outside this statement.) *)
Theorem C44_addr_rule : forall e u o, parse_url e u = Ok o ->
  forall i a h p, nth_error (q_all (query u) (b "addr")) i = Some a -> split_host_port e a = (h, p) -> p <> [] ->
  nth_error (init_address o) (S i) =
  Some (join_host_port (match h with [] => match hostname u with [] => b "localhost" | n => n end | _ => h end) p).
Proof.
  intros e u o H i a h p Hi Hs Hp. destruct (addr_entries e u o H i a Hi) as [-> _]. now rewrite (addr_rule e u a h p Hs Hp).
Qed.
Print Assumptions C44_addr_rule.

(** the original code took u.Host verbatim as the default host: redis://h1:7000?addr=:7001 gave [h1:7000]:7001 and
    redis://[::1] gave [[::1]]:6379 *)
Theorem C44_addr_rule_before_fix_refuted :
  let e := mkEnv (fun s => if bytes_eqb s (b ":7001") then ([], b "7001") else ([], [])) (fun _ => None) (fun s => s) in
  snd (parse_addr e (b "h1:7000") (b ":7001")) = b "[h1:7000]:7001" /\
  snd (parse_addr e (b "h1") (b ":7001")) = b "h1:7001" /\
  snd (parse_addr e (b "[::1]") (b "[::1]")) = b "[[::1]]:6379" /\
  snd (parse_addr e (b "::1") (b "[::1]")) = b "[::1]:6379".
Proof. exact addr_before_fix_malformed. Qed.
Print Assumptions C44_addr_rule_before_fix_refuted.

(** adding or changing a pair with another key does not change the values of a key *)
Theorem C44_other_keys_invisible : forall q k k' v, bytes_eqb k' k = false -> q_all ((k', v) :: q) k = q_all q k.
Proof. exact q_all_other. Qed.
Print Assumptions C44_other_keys_invisible.

(** invalid values are rejected: unsupported scheme; db / path database that is not an int; unparsable
    dial_timeout / write_timeout; non-boolean non-empty skip_verify on a TLS scheme; a path with more than
    one segment (non-unix schemes) *)
Theorem C44_invalid_rejected : forall e u,
  (is_unix_scheme (scheme u) || is_tls_scheme (scheme u) || is_plain_scheme (scheme u) = false -> parse_url e u = Err EScheme) /\
  ((q_has (query u) (b "db") = true /\ parse_int10 (q_get (query u) (b "db")) = None) \/
   (q_has (query u) (b "dial_timeout") = true /\ parse_duration e (q_get (query u) (b "dial_timeout")) = None) \/
   (q_has (query u) (b "write_timeout") = true /\ parse_duration e (q_get (query u) (b "write_timeout")) = None) \/
   (is_tls_scheme (scheme u) = true /\ q_has (query u) (b "skip_verify") = true /\
    q_get (query u) (b "skip_verify") <> [] /\ parse_bool (q_get (query u) (b "skip_verify")) = None) \/
   (is_unix_scheme (scheme u) = false /\ exists x d, split_byte 47 (path u) = [x; d] /\ parse_int10 d = None) \/
   (is_unix_scheme (scheme u) = false /\ exists x y z r, split_byte 47 (path u) = x :: y :: z :: r)
   -> exists k, parse_url e u = Err k).
Proof. exact invalid_rejected. Qed.
Print Assumptions C44_invalid_rejected.

(** the original code: dial_timeout=5s&write_timeout=1s gave Dialer.Timeout = 1s and ConnWriteTimeout = 0 *)
Theorem C44_write_timeout_before_fix_refuted :
  let e := mkEnv (fun _ => ([], [])) (fun s => if bytes_eqb s (b "5s") then Some 5000000000%Z else if bytes_eqb s (b "1s") then Some 1000000000%Z else None) (fun s => s) in
  timeouts_before_fix e [(b "dial_timeout", b "5s"); (b "write_timeout", b "1s")] = Ok (1000000000%Z, 0%Z).
Proof. exact before_fix_overwrites. Qed.
Print Assumptions C44_write_timeout_before_fix_refuted.

(** non-vacuity: a TLS URL with credentials, database in the path, both timeouts, two addr parameters
    and skip_verify; and a rejected one *)
Definition ex_env : env :=
  mkEnv (fun s => if bytes_eqb s (b "h:1") then (b "h", b "1") else if bytes_eqb s (b "a:2") then (b "a", b "2") else ([], []))
        (fun s => if bytes_eqb s (b "5s") then Some 5000000000%Z else if bytes_eqb s (b "1s") then Some 1000000000%Z else None)
        (fun s => s).

Example C44_nonvacuous_accept :
  parse_url ex_env (mkUrl (b "rediss") (Some (b "u", Some (b "p"))) (b "h:1") (b "h") (b "/3")
     [(b "addr", b "a:2"); (b "dial_timeout", b "5s"); (b "write_timeout", b "1s"); (b "skip_verify", []); (b "protocol", b "2")]) =
  Ok (mkOpts [b "h:1"; b "a:2"] (Some (mkTls (b "h") true)) false (b "u") (b "p") 3%Z 5000000000%Z 1000000000%Z true false false [] []).
Proof. vm_compute. reflexivity. Qed.

Example C44_nonvacuous_reject :
  parse_url ex_env (mkUrl (b "redis") None (b "h:1") (b "h") [] [(b "write_timeout", b "x")]) = Err EWrite /\
  parse_url ex_env (mkUrl (b "http") None (b "h:1") (b "h") [] []) = Err EScheme /\
  parse_url ex_env (mkUrl (b "redis") None (b "h:1") (b "h") (b "/1/2") []) = Err EPath.
Proof. vm_compute. repeat split; reflexivity. Qed.
