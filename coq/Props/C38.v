(** C38 — Rate limiter never admits more than the limit per window.

    Script executions are atomic on the server, so every interleaving of concurrent callers is a
    sequence of calls in the order the server ran their scripts; the theorems quantify over ALL such
    sequences (any number of callers and identifiers, any n, limits, windows) and over ALL clock
    values: every call carries the caller's clock [now_c] and the server's clock [now_s]; the callers'
    clocks need not be monotone or shared.  (The model evaluates key expiry against [now_s] of each call;
    this is Redis' behaviour when the server clock does not go back between script runs — a key that
    expired stays expired.  The theorems hold for all [now_s] sequences of the model.)  Hypotheses ([good]): windows are positive and
    the server clock is less than 1000 ms ahead of the caller's clock — the slack by which the script
    keeps its keys beyond the end of a window.  (Without it the statement is false: a server clock far
    ahead expires the keys at once and every call opens a new window with the same ResetAtMs.)

    A window is identified by (identifier, ResetAtMs). *)
From Coq Require Import List NArith ZArith Bool Lia.
Require Import RV.Model.Base RV.Model.Limiter RV.Proofs.LimiterProofs RV.Model.ScriptTexts RV.Gen.Scripts.
Import ListNotations.
Open Scope Z_scope.

(** calls of other identifiers never influence an identifier: its calls, state and results are those of
    the projected history *)
Theorem C38_identifiers_independent : forall (calls : list call) (id : N),
  let '(st', tr') := run sempty_store [] calls in
  lrun lempty [] (calls_of id calls) = (st' id, proj id tr').
Proof. intros calls id. exact (run_proj calls sempty_store [] id). Qed.
Print Assumptions C38_identifiers_independent.

(** per (identifier, window): the units admitted (n > 0, Allowed) add up to at most the limit, when the
    calls of that identifier use one limit L (the limiter's own, or the same custom limit) *)
Theorem C38_admitted_le_limit : forall (calls : list call) (id : N) (L R : Z),
  Forall (fun c => good (body c)) calls ->
  (forall c, In c calls -> cid c = id -> limit (body c) = L) ->
  admitted_sum (snd (run sempty_store [] calls)) id R <= Z.max L 0.
Proof.
  intros calls id L R Hg HL. unfold admitted_sum.
  pose proof (run_proj calls sempty_store [] id) as H.
  destruct (run sempty_store [] calls) as [st' tr']. cbn [snd proj] in *.
  replace (proj id tr') with (snd (lrun lempty [] (calls_of id calls))) by (unfold sempty_store in H; rewrite H; reflexivity).
  apply admitted_bound.
  - exact Jinv_empty.
  - apply calls_of_good. exact Hg.
  - intros c Hin. destruct (calls_of_In id calls c Hin) as [c0 [H1 [H2 H3]]]. rewrite <- H3. apply HL; assumption.
  - intros R'. cbn [admitted]. lia.
Qed.
Print Assumptions C38_admitted_le_limit.

(** the general form, with per-call limits and windows (WithCustomRateLimit): at every admitted call, what
    was admitted in its window so far (that call included) is within THAT call's limit; and for every
    call: Remaining = max(limit - everything requested so far in the window, 0), the script's counter is
    exactly that requested sum, and no earlier call was counted in a later window (ResetAtMs never goes
    back: it identifies the window the call was counted in) *)
Theorem C38_every_call : forall (calls : list call) (id : N),
  Forall (fun c => good (body c)) calls ->
  forall pre c r post, proj id (snd (run sempty_store [] calls)) = pre ++ (c, Ok r) :: post ->
    remaining r = Z.max (limit c - requested (pre ++ [(c, Ok r)]) (reset r)) 0
    /\ current r = requested (pre ++ [(c, Ok r)]) (reset r)
    /\ (allowed r = true -> 0 < n c -> admitted (pre ++ [(c, Ok r)]) (reset r) <= limit c)
    /\ (forall c' r', In (c', Ok r') pre -> reset r' <= reset r).
Proof.
  intros calls id Hg pre c r post Heq.
  pose proof (run_proj calls sempty_store [] id) as H.
  destruct (run sempty_store [] calls) as [st' tr']. cbn [snd proj] in *.
  pose proof (lrun_spec (calls_of id calls) lempty [] Jinv_empty (calls_of_good id calls Hg)) as Hs.
  unfold sempty_store in H. rewrite H in Hs. destruct Hs as [_ [suf [Htr Hall]]].
  cbn [app] in Htr. subst suf. specialize (Hall pre c (Ok r) post Heq). cbn [app] in Hall. exact Hall.
Qed.
Print Assumptions C38_every_call.

Theorem C38_remaining : forall (calls : list call) (id : N),
  Forall (fun c => good (body c)) calls ->
  forall pre c r post, proj id (snd (run sempty_store [] calls)) = pre ++ (c, Ok r) :: post ->
    remaining r = Z.max (limit c - requested (pre ++ [(c, Ok r)]) (reset r)) 0.
Proof. intros calls id Hg pre c r post Heq. exact (proj1 (C38_every_call calls id Hg pre c r post Heq)). Qed.
Print Assumptions C38_remaining.

(** Check (n = 0) consumes nothing: when the window is live for the caller the server state is unchanged;
    in every case the units counted in the caller's current window are the same before and after, and
    the result reports them (Remaining = max(limit - counted, 0), Allowed = counted < limit) *)
Theorem C38_check_pure : forall (s : lstate) (c : lcall), n c = 0 -> good c ->
  let '(s', o) := allow_n s c in
  (window_live s (now_c c) (now_s c) = true -> s' = s) /\
  counted s' (now_c c) (now_s c) = counted s (now_c c) (now_s c) /\
  exists r, o = Ok r /\ current r = counted s (now_c c) (now_s c) /\
            remaining r = Z.max (limit c - counted s (now_c c) (now_s c)) 0 /\
            allowed r = (counted s (now_c c) (now_s c) <? limit c).
Proof. exact check_pure. Qed.
Print Assumptions C38_check_pure.

(** a negative n is refused before anything is sent *)
Theorem C38_negative_refused : forall s c, n c < 0 -> allow_n s c = (s, Err 1).
Proof. intros s c H. unfold allow_n. destruct (n c <? 0) eqn:E; [reflexivity|]. apply Z.ltb_ge in E. lia. Qed.
Print Assumptions C38_negative_refused.

(** why the clock hypothesis is needed: with a server clock 2 s ahead, two Allow calls in the same
    millisecond are both admitted under limit 1 with the same ResetAtMs *)
Theorem C38_clock_hypothesis_needed : exists calls id R,
  Forall (fun c => 0 < window (body c)) calls /\ (forall c, In c calls -> limit (body c) = 1) /\
  admitted_sum (snd (run sempty_store [] calls)) id R = 2.
Proof.
  exists [ {| cid := 7%N; body := {| n := 1; limit := 1; window := 100; now_c := 5000; now_s := 7000 |} |};
           {| cid := 7%N; body := {| n := 1; limit := 1; window := 100; now_c := 5000; now_s := 7000 |} |} ], 7%N, 5100.
  split; [repeat constructor|]. split; [intros c [<-|[<-|[]]]; reflexivity|]. vm_compute. reflexivity.
Qed.
Print Assumptions C38_clock_hypothesis_needed.

Theorem C38_script_pinned : rueidislimiter_rateLimitScript = pin_rueidislimiter_rateLimitScript.
Proof. vm_compute. reflexivity. Qed.
Print Assumptions C38_script_pinned.

(** non-vacuity: two identifiers interleaved, a window boundary, a Check, a denied request that still counts *)
Example C38_nonvacuous :
  let mk := fun id n now => {| cid := id; body := {| n := n; limit := 5; window := 100; now_c := now; now_s := now + 300 |} |} in
  let calls := [mk 1%N 2 1000; mk 2%N 5 1001; mk 1%N 3 1050; mk 1%N 1 1060; mk 1%N 0 1070; mk 1%N 4 1101; mk 2%N 1 1002] in
  Forall (fun c => good (body c)) calls
  /\ map (fun p => match snd p with Ok r => (allowed r, remaining r, reset r) | _ => (false, -1, -1) end) (snd (run sempty_store [] calls))
     = [(true, 3, 1100); (true, 0, 1101); (true, 0, 1100); (false, 0, 1100); (false, 0, 1100); (true, 1, 1201); (false, 0, 1101)]
  /\ admitted_sum (snd (run sempty_store [] calls)) 1%N 1100 = 5.
Proof. vm_compute. repeat split; repeat constructor; reflexivity. Qed.
