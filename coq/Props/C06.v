(** C06 — Cached replies are never served after their invalidation (store level).

    A history is the list of operations applied to the connection's store in the order they take
    effect: the reader's commits (Update), invalidations ([Delete (Some keys)]), flushes ([Delete None])
    and disconnects ([Close]) in wire order, interleaved with the callers' lookups (Flight, Flights and
    their individual critical sections).  Which frames produce which Update is Model/CacheWire.v (C07);
    tracking mode (opt-in / opt-out / broadcast) only changes which invalidations the server sends.
    [answers k c o x] = what operation [o] (output [x]) told the lookups of command (k, c);
    [invalidates k o] = o is an invalidation of key k, a flush or a disconnect.
    The identity of a command is the pair (key, cmd) of cmds.CacheKey (built-in store) resp. the string
    key ++ cmd (NewSimpleCacheAdapter): "the reply the server sent for exactly that command" holds up to
    that identity (C08). *)
From Coq Require Import List NArith ZArith Bool Lia.
Require Import RV.Model.Base RV.Model.Lru RV.Model.Adapter.
Require Import RV.Proofs.LruBase RV.Proofs.LruSteps RV.Proofs.LruAnswers RV.Proofs.LruHist
               RV.Proofs.AdapterProofs RV.Proofs.AdapterC06.
Import ListNotations.
Open Scope Z_scope.

(** Built-in store.  A hit for (k, c) at the end of history [ops] returns the reply of an Update of
    exactly (k, c) at some position u (with the expiry the store assigned), no invalidation of k, flush or
    disconnect occurs after u, and the instant of the lookup is before the expiry.  No assumption on clocks. *)
Theorem C06_no_stale_hit : forall g ops o k c v,
  Forall wf_op ops ->
  In (AHit v) (answers k c o (snd (step g (run g ops init) o))) ->
  exists u v0 x,
    nth_error ops u = Some (Update k c v0) /\ v = set_xat v0 x /\
    (forall j o', (u < j)%nat -> nth_error ops j = Some o' -> ~ invalidates k o') /\
    unix_milli (now_of o) < x.
Proof. exact no_stale_hit. Qed.
Print Assumptions C06_no_stale_hit.

(** An in-flight entry survives invalidations of its key and flushes, and is completed by its Update
    afterwards (sound because Redis registers tracking when the read executes: a later write's
    invalidation follows the read's reply on the wire — the stated assumption on the server). *)
Theorem C06_pending_survives_invalidation : forall g ops keys e,
  Forall wf_op ops -> In e (order (run g ops init)) -> pending e = true ->
  In e (order (fst (step g (run g ops init) (Delete keys)))).
Proof.
  intros g ops keys e Hw He Hp. apply pending_survives; try assumption.
  - apply inv_run; [exact Hw|apply inv_init].
  - intros [].
Qed.
Print Assumptions C06_pending_survives_invalidation.

(** After a disconnect the store stays empty and closed: every later lookup is a miss. *)
Theorem C06_nothing_after_disconnect : forall g ops err ops2,
  Forall wf_op (ops ++ Close err :: ops2) ->
  let s := run g (ops ++ Close err :: ops2) init in closed s = true /\ order s = [].
Proof.
  intros g ops err ops2 Hw s. unfold s. rewrite run_app, run_cons.
  apply Forall_app in Hw. destruct Hw as [Hw1 Hw2]. inversion Hw2 as [|? ? _ Hw3]; subst.
  pose proof (inv_run g ops init Hw1 inv_init) as Hi.
  assert (H0 : inv (fst (step g (run g ops init) (Close err))) /\ closed (fst (step g (run g ops init) (Close err))) = true
               /\ order (fst (step g (run g ops init) (Close err))) = []).
  { split; [apply inv_step; [exact I|exact Hi]|split; reflexivity]. }
  revert H0. generalize (fst (step g (run g ops init) (Close err))). clear -Hw3.
  induction ops2 as [|o r IH]; intros s0 [Hi [Hc Ho]]; [split; assumption|].
  inversion Hw3; subst. rewrite run_cons. apply IH; [assumption|].
  destruct (closed_step g s0 o Hi Hc) as [A B]. split; [apply inv_step; assumption|split; assumption].
Qed.
Print Assumptions C06_nothing_after_disconnect.

(** NewSimpleCacheAdapter (as repaired: Flight looks the SimpleCache up again under the write lock; the
    unrepaired code served a stale reply after an invalidation when two callers missed concurrently —
    known_findings.d/lru.json).  The SimpleCache may also forget entries at any time ([AStoreDrop]).
    A hit for (k1, c1) returns the reply of an Update of a command (k, c) with the same store identity
    k ++ c = k1 ++ c1, unexpired at the lookup's instant.  The adapter does not remove an expired value
    when it re-fetches it, and an in-flight command is skipped by invalidations; so if k was
    invalidated after that Update, then some lookup that preceded the invalidation had read a later
    clock than this hit's caller: the caller read its clock before that lookup, hence before the
    invalidation was processed — it is not a call "started afterwards". *)
Theorem C06_adapter_no_stale_hit : forall ops o k1 c1 v,
  In (AHit v) (a_answers k1 c1 o (snd (astep (arun ops ainit) o))) ->
  exists u k c v0 x,
    nth_error ops u = Some (AUpdate k c v0) /\ k ++ c = k1 ++ c1 /\ v = set_xat v0 x /\
    unix_milli (a_now_of o) < m_xat v /\
    forall j oj, (u < j)%nat -> nth_error ops j = Some oj -> a_invalidates k oj ->
      exists q oq nowq, (q < j)%nat /\ nth_error ops q = Some oq /\ a_lookup_at oq = Some nowq /\
                        unix_milli (a_now_of o) < unix_milli nowq.
Proof. exact a_no_stale_hit. Qed.
Print Assumptions C06_adapter_no_stale_hit.

(** the same, in the property's words: if the hit's caller read its clock no earlier than every lookup
    that preceded an invalidation, that invalidation did not concern the committing key *)
Theorem C06_adapter_started_afterwards : forall ops o k1 c1 v,
  In (AHit v) (a_answers k1 c1 o (snd (astep (arun ops ainit) o))) ->
  (forall q oq nowq, nth_error ops q = Some oq -> a_lookup_at oq = Some nowq -> unix_milli nowq <= unix_milli (a_now_of o)) ->
  exists u k c v0 x,
    nth_error ops u = Some (AUpdate k c v0) /\ k ++ c = k1 ++ c1 /\ v = set_xat v0 x /\
    forall j oj, (u < j)%nat -> nth_error ops j = Some oj -> ~ a_invalidates k oj.
Proof.
  intros ops o k1 c1 v H Hclock. destruct (a_no_stale_hit ops o k1 c1 v H) as [u [k [c [v0 [x [A [B [C [_ D]]]]]]]]].
  exists u, k, c, v0, x. repeat split; try assumption. intros j oj Hj Hn Hinv.
  destruct (D j oj Hj Hn Hinv) as [q [oq [nowq [_ [Hq [Hat Hlt]]]]]]. specialize (Hclock q oq nowq Hq Hat). lia.
Qed.
Print Assumptions C06_adapter_started_afterwards.

(** in-flight adapter entries survive invalidations as well *)
Theorem C06_adapter_pending_survives : forall ops keys k c ae,
  a_pending (arun ops ainit) k c ae -> a_pending (fst (astep (arun ops ainit) (ADelete keys))) k c ae.
Proof. intros ops keys k c ae H. apply a_flight_persists; [apply ainv_run|exact H|intros []]. Qed.
Print Assumptions C06_adapter_pending_survives.

(** non-vacuity: commit, hit, invalidate, miss; flush; the adapter likewise, including the repaired race *)
Definition ex_g := mkCfg 100000 336 40.
Definition kA : bytes := [97%N]. Definition kB : bytes := [98%N]. Definition cG : bytes := [71%N].
Definition rep (n : N) : msg := Msg 36 0 [n] [] 0 true.
Definition ex1 : list op := [Flight kA cG 1000000000 0; Update kA cG (rep 1); Flight kB cG 1000000000 0; Update kB cG (rep 2)].

Example C06_nonvacuous :
  answers kA cG (Flight kA cG 5 7) (snd (step ex_g (run ex_g ex1 init) (Flight kA cG 5 7))) = [AHit (set_xat (rep 1) 1000)] /\
  answers kA cG (Flight kA cG 5 7) (snd (step ex_g (run ex_g (ex1 ++ [Delete (Some [kA])]) init) (Flight kA cG 5 7))) = [AMiss] /\
  answers kB cG (Flight kB cG 5 7) (snd (step ex_g (run ex_g (ex1 ++ [Delete (Some [kA])]) init) (Flight kB cG 5 7))) = [AHit (set_xat (rep 2) 1000)] /\
  answers kB cG (Flight kB cG 5 7) (snd (step ex_g (run ex_g (ex1 ++ [Delete None]) init) (Flight kB cG 5 7))) = [AMiss] /\
  (* adapter: caller A misses in its read-locked section, caller B fetches and commits, A continues:
     served the fresh value instead of starting a flight; after the invalidation the next lookup misses *)
  let race := [AFlightFast kA cG 0; AFlight kA cG 1000000000 1; AUpdate kA cG (rep 3); AFlightSlow kA cG 1000000000 0] in
  a_answers kA cG (AFlightSlow kA cG 1000000000 0)
     (snd (astep (arun [AFlightFast kA cG 0; AFlight kA cG 1000000000 1; AUpdate kA cG (rep 3)] ainit) (AFlightSlow kA cG 1000000000 0)))
     = [AHit (set_xat (rep 3) 1000)] /\
  a_answers kA cG (AFlight kA cG 5 9) (snd (astep (arun (race ++ [ADelete (Some [kA])]) ainit) (AFlight kA cG 5 9))) = [AMiss].
Proof. repeat split; vm_compute; reflexivity. Qed.
